import Mathlib.Tactic
import ExponaxModel.Proofs.BatchGen
/-
C06 (continuation) — the batch / rollout algebra for the loops REGENERATED from `exponax/_utils.py`
(`Generated/LoopsGen.lean`: `rollout`, `repeat` and their `include_init`, `takes_aux`, `constant_aux` variants), not for
the hand-written model.  Reading (the one the translators use): a batch of states is a `List S`, `vmap f` is
`List.map f`; a stepper with an auxiliary input mapped over both arguments is `fun us as => List.zipWith f us as`.
Entry `(t, b)` of a nested list `x` is `x[t]?.bind (·[b]?)`, so every statement below covers every pair of indices,
in or out of range.  The aux variants of the regenerated loops return an `Option` (`none` = the `ValueError` of
`jax.lax.scan(..., length=n)`), which is bound through.
Still outside any theorem: XLA compilation and tracer semantics (see `C06.lean`).
-/
set_option linter.unusedVariables false
namespace Exponax
open Exponax.Loops Exponax.Gen.LoopsGen

/-- (1) rolling out the mapped stepper (state = the whole batch) with the regenerated `rollout` gives the transpose of
    the batch of regenerated rollouts: entry `(t, b)` of one is entry `(b, t)` of the other — for every `n`, every
    batch, every `t` and `b`, with and without `include_init` -/
theorem C06_generated_rollout_of_mapped_stepper_is_transposed_map_of_rollouts {S : Type} (stepper : S → S) (n : ℕ)
    (includeInit : Bool) (batch : List S) (t b : ℕ) :
    ((rollout_noaux (List.map stepper) n includeInit batch)[t]?.bind fun x => x[b]?) =
      (batch.map (rollout_noaux stepper n includeInit))[b]?.bind fun x => x[t]? :=
  rollout_noaux_map_transpose stepper n includeInit batch t b

/-- (1, whole-array form) the regenerated rollout of the mapped stepper IS the list of the columns of the batch of
    regenerated rollouts: it has `n` (`n + 1` with `include_init`) time entries and time entry `t` is column `t` -/
theorem C06_generated_rollout_of_mapped_stepper_is_list_of_columns {S : Type} (stepper : S → S) (n : ℕ)
    (includeInit : Bool) (batch : List S) :
    rollout_noaux (List.map stepper) n includeInit batch =
      (List.range (if includeInit then n + 1 else n)).map
        (fun t => (batch.map (rollout_noaux stepper n includeInit)).filterMap (fun row => row[t]?)) :=
  rollout_noaux_map_eq_columns stepper n includeInit batch

/-- (1, shapes) the regenerated batched rollout has `n` (`n + 1`) time entries, each a batch of the size of the input;
    the batch of rollouts has one row per member, each with `n` (`n + 1`) entries -/
theorem C06_generated_rollout_shapes {S : Type} (stepper : S → S) (n : ℕ) (includeInit : Bool) (batch : List S) :
    (rollout_noaux (List.map stepper) n includeInit batch).length = (if includeInit then n + 1 else n) ∧
    (∀ x ∈ rollout_noaux (List.map stepper) n includeInit batch, x.length = batch.length) ∧
    (batch.map (rollout_noaux stepper n includeInit)).length = batch.length ∧
    (∀ x ∈ batch.map (rollout_noaux stepper n includeInit), x.length = (if includeInit then n + 1 else n)) := by
  refine ⟨rollout_noaux_map_length stepper n includeInit batch,
    rollout_noaux_map_entry_length stepper n includeInit batch, List.length_map _, ?_⟩
  intro x hx
  rw [rollout_noaux_fun_eq] at hx
  exact map_rollout_entry_length stepper n includeInit batch x hx

/-- (1, value form) in range, entry `(t, b)` is the `t`-th (`t + 1`-st without `include_init`) iterate of the stepper on
    member `b` -/
theorem C06_generated_rollout_entry_value {S : Type} (stepper : S → S) (n : ℕ) (includeInit : Bool) (batch : List S)
    (t b : ℕ) (ht : t < (if includeInit then n + 1 else n)) (hb : b < batch.length) :
    ((rollout_noaux (List.map stepper) n includeInit batch)[t]?.bind fun x => x[b]?) =
      some (stepper^[if includeInit then t else t + 1] batch[b]) :=
  rollout_noaux_map_value stepper n includeInit batch t b ht hb

/-- (2) member independence: two batches (of possibly different sizes) that agree at index `b` give the same member
    `b` of the regenerated batched rollout at every time -/
theorem C06_generated_member_independent {S : Type} (stepper : S → S) (n : ℕ) (includeInit : Bool)
    (batch batch' : List S) (b : ℕ) (h : batch[b]? = batch'[b]?) (t : ℕ) :
    ((rollout_noaux (List.map stepper) n includeInit batch)[t]?.bind fun x => x[b]?) =
      (rollout_noaux (List.map stepper) n includeInit batch')[t]?.bind fun x => x[b]? :=
  rollout_noaux_map_row_congr stepper n includeInit batch batch' b h t

/-- (2, overwrite form) replacing another member `b' ≠ b` by anything leaves member `b` of the regenerated batched
    rollout unchanged -/
theorem C06_generated_no_cross_talk {S : Type} (stepper : S → S) (n : ℕ) (includeInit : Bool) (batch : List S)
    (b b' : ℕ) (hb : b' ≠ b) (x : S) (t : ℕ) :
    ((rollout_noaux (List.map stepper) n includeInit (batch.set b' x))[t]?.bind fun y => y[b]?) =
      (rollout_noaux (List.map stepper) n includeInit batch)[t]?.bind fun y => y[b]? :=
  rollout_noaux_map_row_set stepper n includeInit batch b b' hb x t

/-- the regenerated `repeat` of the mapped stepper is the mapped regenerated `repeat`, and its member `b` depends only
    on member `b` of the batch -/
theorem C06_generated_repeat_of_mapped_stepper {S : Type} (stepper : S → S) (n : ℕ) (batch batch' : List S) (b : ℕ)
    (h : batch[b]? = batch'[b]?) :
    repeat_noaux (List.map stepper) n batch = batch.map (repeat_noaux stepper n) ∧
    (repeat_noaux (List.map stepper) n batch)[b]? = (repeat_noaux (List.map stepper) n batch')[b]? :=
  ⟨repeat_noaux_map stepper n batch, repeat_noaux_map_row_congr stepper n batch batch' b h⟩

/-- (3a) constant aux per member: the regenerated `rollout(…, takes_aux=True, constant_aux=True)` of the stepper mapped
    over (state, aux), applied to the batch and the batch of aux values, has entry `(t, b)` equal to entry `t` of the
    same regenerated rollout of the unmapped stepper on member `b` with aux `b` (each member needs an aux value) -/
theorem C06_generated_constant_aux_rollout_is_transposed_map_of_rollouts {S A : Type} (stepper : S → A → S) (n : ℕ)
    (includeInit : Bool) (batch : List S) (auxBatch : List A) (hl : batch.length ≤ auxBatch.length) (t b : ℕ) :
    (((rollout_aux_constant (fun us as => List.zipWith stepper us as) n includeInit batch auxBatch).bind
        fun x => x[t]?).bind fun x => x[b]?) =
      auxBatch[b]?.bind fun a => batch[b]?.bind fun u =>
        (rollout_aux_constant stepper n includeInit u a).bind fun x => x[t]? :=
  rollout_aux_constant_batched_entry stepper n includeInit batch auxBatch hl t b

/-- (3a, independence) with constant aux, member `b` of the batched regenerated rollout depends only on member `b` of
    the batch and of the aux batch -/
theorem C06_generated_constant_aux_member_independent {S A : Type} (stepper : S → A → S) (n : ℕ) (includeInit : Bool)
    (batch batch' : List S) (auxBatch auxBatch' : List A) (hl : batch.length ≤ auxBatch.length)
    (hl' : batch'.length ≤ auxBatch'.length) (b : ℕ) (h : batch[b]? = batch'[b]?)
    (ha : auxBatch[b]? = auxBatch'[b]?) (t : ℕ) :
    (((rollout_aux_constant (fun us as => List.zipWith stepper us as) n includeInit batch auxBatch).bind
        fun x => x[t]?).bind fun x => x[b]?) =
      ((rollout_aux_constant (fun us as => List.zipWith stepper us as) n includeInit batch' auxBatch').bind
        fun x => x[t]?).bind fun x => x[b]? := by
  rw [rollout_aux_constant_batched_entry stepper n includeInit batch auxBatch hl t b,
    rollout_aux_constant_batched_entry stepper n includeInit batch' auxBatch' hl' t b, h, ha]

/-- (3b) time-varying aux per member, aux axes exchanged: the regenerated `rollout(…, takes_aux=True,
    constant_aux=False)` of the stepper mapped over (state, aux), fed the TIME-major aux array `auxT` (`n` time entries,
    each holding one aux per member), has entry `(t, b)` equal to entry `t` of the same regenerated rollout of the
    unmapped stepper on member `b` fed the aux sequence of that member, i.e. column `b` of `auxT` (the BATCH-major
    array's row `b`) -/
theorem C06_generated_aux_sequence_rollout_is_transposed_map_of_rollouts {S A : Type} (stepper : S → A → S) (n : ℕ)
    (includeInit : Bool) (batch : List S) (auxT : List (List A)) (hn : auxT.length = n)
    (hl : ∀ x ∈ auxT, batch.length ≤ x.length) (t b : ℕ) :
    (((rollout_aux_sequence (fun us as => List.zipWith stepper us as) n includeInit batch auxT).bind
        fun x => x[t]?).bind fun x => x[b]?) =
      batch[b]?.bind fun u =>
        (rollout_aux_sequence stepper n includeInit u (auxT.filterMap fun x => x[b]?)).bind fun x => x[t]? :=
  rollout_aux_sequence_batched_entry stepper n includeInit batch auxT hn hl t b

/-- (3b, independence) with an aux sequence, member `b` of the batched regenerated rollout depends only on member `b` of
    the batch and on that member's aux sequence (column `b` of the time-major aux array) -/
theorem C06_generated_aux_sequence_member_independent {S A : Type} (stepper : S → A → S) (n : ℕ) (includeInit : Bool)
    (batch batch' : List S) (auxT auxT' : List (List A)) (hn : auxT.length = n) (hn' : auxT'.length = n)
    (hl : ∀ x ∈ auxT, batch.length ≤ x.length) (hl' : ∀ x ∈ auxT', batch'.length ≤ x.length) (b : ℕ)
    (h : batch[b]? = batch'[b]?)
    (ha : (auxT.filterMap fun x => x[b]?) = auxT'.filterMap fun x => x[b]?) (t : ℕ) :
    (((rollout_aux_sequence (fun us as => List.zipWith stepper us as) n includeInit batch auxT).bind
        fun x => x[t]?).bind fun x => x[b]?) =
      ((rollout_aux_sequence (fun us as => List.zipWith stepper us as) n includeInit batch' auxT').bind
        fun x => x[t]?).bind fun x => x[b]? := by
  rw [rollout_aux_sequence_batched_entry stepper n includeInit batch auxT hn hl t b,
    rollout_aux_sequence_batched_entry stepper n includeInit batch' auxT' hn' hl' t b, h]
  unfold column
  rw [ha]

/-! ### non-vacuity: the stepper `x ↦ 2x + 1` on `ℕ`, a batch of 3, `n = 2` -/

example : rollout_noaux (List.map fun x : ℕ => 2 * x + 1) 2 true [0, 1, 5] = [[0, 1, 5], [1, 3, 11], [3, 7, 23]] := by
  decide
example : [0, 1, 5].map (rollout_noaux (fun x : ℕ => 2 * x + 1) 2 true) = [[0, 1, 3], [1, 3, 7], [5, 11, 23]] := by
  decide
example : rollout_noaux (List.map fun x : ℕ => 2 * x + 1) 2 false [0, 1, 5] = [[1, 3, 11], [3, 7, 23]] := by decide
example : [0, 1, 5].map (rollout_noaux (fun x : ℕ => 2 * x + 1) 2 false) = [[1, 3], [3, 7], [11, 23]] := by decide
/-- changing members 0 and 2 leaves member 1 (`1, 3, 7`) in place -/
example : rollout_noaux (List.map fun x : ℕ => 2 * x + 1) 2 true [9, 1, 0] = [[9, 1, 0], [19, 3, 1], [39, 7, 3]] := by
  decide
example : repeat_noaux (List.map fun x : ℕ => 2 * x + 1) 2 [0, 1, 5] = [3, 7, 23] := by decide
/-- constant aux `x ↦ 2x + a` with `a = 1, 2, 3` per member (hypothesis `3 ≤ 3` holds) -/
example : rollout_aux_constant (fun us as => List.zipWith (fun (x a : ℕ) => 2 * x + a) us as) 2 true [0, 1, 5] [1, 2, 3]
    = some [[0, 1, 5], [1, 4, 13], [3, 10, 29]] := by decide
example : rollout_aux_constant (fun (x a : ℕ) => 2 * x + a) 2 true 1 2 = some [1, 4, 10] := by decide
example : ([0, 1, 5] : List ℕ).length ≤ ([1, 2, 3] : List ℕ).length := by decide
/-- aux sequence, time-major `[[1, 2, 3], [4, 5, 6]]`; member 1 sees column 1 = `[2, 5]` -/
example : rollout_aux_sequence (fun us as => List.zipWith (fun (x a : ℕ) => 2 * x + a) us as) 2 true [0, 1, 5]
    [[1, 2, 3], [4, 5, 6]] = some [[0, 1, 5], [1, 4, 13], [6, 13, 32]] := by decide
example : ([[1, 2, 3], [4, 5, 6]] : List (List ℕ)).filterMap (fun x => x[1]?) = [2, 5] := by decide
example : rollout_aux_sequence (fun (x a : ℕ) => 2 * x + a) 2 true 1 [2, 5] = some [1, 4, 13] := by decide
example : ([[1, 2, 3], [4, 5, 6]] : List (List ℕ)).length = 2 ∧
    ∀ x ∈ ([[1, 2, 3], [4, 5, 6]] : List (List ℕ)), ([0, 1, 5] : List ℕ).length ≤ x.length := by decide
/-- a wrong number of aux time entries is rejected (`none`), so the hypothesis `auxT.length = n` is the contract -/
example : rollout_aux_sequence (fun (x a : ℕ) => 2 * x + a) 2 true 1 [2, 5, 7] = none := by decide

end Exponax
