import Mathlib.Tactic
import ExponaxModel.Properties.C12
import ExponaxModel.Properties.C14_aux
/-
C12 (continued) — the two wrappers composed.  `ForcedStepper(RepeatedStepper(s, n))` reads the time step it multiplies the forcing
with from the wrapped object (`self.stepper.dt`), and a `RepeatedStepper` reports `dt·n`.  On the REGENERATED definitions
(`Gen.Misc.forced_step_fourier` from `_forced_stepper.py`, `Gen.LoopsGen.RepeatedStepper_step_fourier` / `RepeatedStepper_dt` from
`_repeated_stepper.py`): the forced step of a sub-stepped stepper with forcing `f` is the `n`-fold inner step of `u + (n·dt)·f`;
with zero forcing it is the sub-stepped stepper; as a function of `dt` the forcing enters through the exact product `dt·n`
(no rounding, no truncation of the effective time step — the round-8 change C07_8 replaced it by `round(dt·n, 14)`).
-/
set_option linter.unusedVariables false
namespace Exponax
open Exponax.Gen.Misc Exponax.Gen.LoopsGen

/-- forced step of a repeated stepper = `n` inner Fourier steps of `û + (dt·n)·f̂` -/
theorem C12_forced_repeated_stepper {V : Type} [CommRing V] (inner : V → V) (dt : V) (n : ℕ) (u f : V) :
    forced_step_fourier (RepeatedStepper_step_fourier n inner) (RepeatedStepper_dt dt n) u f
      = Loops.repeatN inner n (u + dt * (n : V) * f) := by
  unfold forced_step_fourier RepeatedStepper_step_fourier
  rw [Gen.LoopsGen.repeat_noaux_eq]
  rfl

/-- … with zero forcing it is the repeated stepper itself -/
theorem C12_forced_repeated_stepper_zero_forcing {V : Type} [CommRing V] (inner : V → V) (dt : V) (n : ℕ) (u : V) :
    forced_step_fourier (RepeatedStepper_step_fourier n inner) (RepeatedStepper_dt dt n) u 0
      = RepeatedStepper_step_fourier n inner u := by
  simp [forced_step_fourier]

/-- the effective time step a forced stepper sees is the exact product: linear in `dt`, slope `n` -/
theorem C12_forced_repeated_effective_dt {V : Type} [CommRing V] (dt dt' : V) (n : ℕ) :
    RepeatedStepper_dt (dt + dt') n = RepeatedStepper_dt dt n + RepeatedStepper_dt dt' n ∧
      RepeatedStepper_dt dt n = dt * (n : V) := by
  constructor
  · simp only [RepeatedStepper_dt, lit]
    ring
  · rfl

/-- non-vacuity: inner step `x ↦ 2x + 1` on ℤ, three sub-steps of dt = 5, forcing 7: `(x ↦ 2x+1)^3 (1 + 15·7)` -/
example : forced_step_fourier (RepeatedStepper_step_fourier 3 (fun x : ℤ => 2 * x + 1)) (RepeatedStepper_dt 5 3) 1 7
    = 855 := by decide

end Exponax
