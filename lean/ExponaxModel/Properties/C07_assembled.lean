import ExponaxModel.Proofs.LinearAssembled
/-
C07 (continuation) — "for linear steppers the Jacobian is the linear map itself; the same holds through rollouts", on the
ASSEMBLED REGENERATED steps.

`Properties/C07.lean` (`C07_linear_jacobian_whole_state`, `C07_linear_rollout_jacobian`) proves the clause for the
hand-written model step `linearStepTerm` with an ARBITRARY coefficient array.  Here it is tied to the steps assembled from
the regenerated pieces (`Proofs/InterfaceAssembly2.lean`, `Proofs/SmallGaps4Linear.lean`: regenerated `__init__` wiring,
regenerated `_build_linear_operator`, regenerated `_build_nonlinear_fun`, regenerated ETDRK coefficients and stage
formulas): each of the six linear steppers, and every `n`-fold iterate, is a ℂ-linear map on whole stored spectra
`Spec = ℕ → ℕ → ℂ` (pointwise operations), hence its own linearisation: `step (u + h) − step u = step h` for every base
point and every increment, so the derivative at `u` in direction `h` (what `jax.jvp` / `jax.jacfwd` return) is `step h`,
independent of `u`.  `Spec` carries no norm (all sequences), so the statement is the algebraic one; the normed-space
`HasFDerivAt` form on the finite physical grid is `C07_linear_jacobian_whole_state`.
JAX's AD engine is observed by the check, not modelled.
-/
set_option linter.unusedVariables false
namespace Exponax
open Exponax.Interface Exponax.Gen.Etdrk Exponax.Gen.StepperWiring Exponax.Gen.Steppers

/-- **the six linear steppers are linear maps.**  For ALL constructor arguments (dimension, extent, resolution, `dt`,
    velocity scalar / vector, diffusivity scalar / vector / matrix, dispersivity, hyper-diffusivity, mixing flags,
    coefficient list) the assembled regenerated step of `GeneralLinearStepper`, `Advection`, `Diffusion`,
    `AdvectionDiffusion`, `Dispersion`, `HyperDiffusion` satisfies `step (a • u + v) = a • step u + step v` for every
    complex `a` and all spectra `u`, `v` (equivalently: it is `IsLinearMap ℂ`). -/
theorem C07_assembled_linear_steppers_are_linear_maps (a : ℂ) (u v : Spec) :
    (∀ g : GeneralLinearStepperArgs ℂ,
      GeneralLinearStepper_step g (a • u + v) = a • GeneralLinearStepper_step g u + GeneralLinearStepper_step g v) ∧
    (∀ x : AdvectionArgs ℂ, Advection_step x (a • u + v) = a • Advection_step x u + Advection_step x v) ∧
    (∀ x : DiffusionArgs ℂ, Diffusion_step x (a • u + v) = a • Diffusion_step x u + Diffusion_step x v) ∧
    (∀ x : AdvectionDiffusionArgs ℂ,
      AdvectionDiffusion_step x (a • u + v) = a • AdvectionDiffusion_step x u + AdvectionDiffusion_step x v) ∧
    (∀ x : DispersionArgs ℂ, Dispersion_step x (a • u + v) = a • Dispersion_step x u + Dispersion_step x v) ∧
    (∀ x : HyperDiffusionArgs ℂ,
      HyperDiffusion_step x (a • u + v) = a • HyperDiffusion_step x u + HyperDiffusion_step x v) :=
  ⟨fun g => GeneralLinearStepper_step_specLinear g a u v, fun x => Advection_step_specLinear x a u v,
   fun x => Diffusion_step_specLinear x a u v, fun x => AdvectionDiffusion_step_specLinear x a u v,
   fun x => Dispersion_step_specLinear x a u v, fun x => HyperDiffusion_step_specLinear x a u v⟩

/-- the same as Mathlib's `IsLinearMap ℂ` (additivity and homogeneity separately) -/
theorem C07_assembled_linear_steppers_isLinearMap :
    (∀ g : GeneralLinearStepperArgs ℂ, IsLinearMap ℂ (GeneralLinearStepper_step g)) ∧
    (∀ x : AdvectionArgs ℂ, IsLinearMap ℂ (Advection_step x)) ∧
    (∀ x : DiffusionArgs ℂ, IsLinearMap ℂ (Diffusion_step x)) ∧
    (∀ x : AdvectionDiffusionArgs ℂ, IsLinearMap ℂ (AdvectionDiffusion_step x)) ∧
    (∀ x : DispersionArgs ℂ, IsLinearMap ℂ (Dispersion_step x)) ∧
    (∀ x : HyperDiffusionArgs ℂ, IsLinearMap ℂ (HyperDiffusion_step x)) :=
  ⟨fun g => (GeneralLinearStepper_step_specLinear g).isLinearMap, fun x => (Advection_step_specLinear x).isLinearMap,
   fun x => (Diffusion_step_specLinear x).isLinearMap, fun x => (AdvectionDiffusion_step_specLinear x).isLinearMap,
   fun x => (Dispersion_step_specLinear x).isLinearMap, fun x => (HyperDiffusion_step_specLinear x).isLinearMap⟩

/-- **… through rollouts.**  Every `n`-fold iterate of each of the six assembled steps is a linear map. -/
theorem C07_assembled_linear_rollouts_are_linear_maps (n : ℕ) (a : ℂ) (u v : Spec) :
    (∀ g : GeneralLinearStepperArgs ℂ,
      (GeneralLinearStepper_step g)^[n] (a • u + v)
        = a • (GeneralLinearStepper_step g)^[n] u + (GeneralLinearStepper_step g)^[n] v) ∧
    (∀ x : AdvectionArgs ℂ,
      (Advection_step x)^[n] (a • u + v) = a • (Advection_step x)^[n] u + (Advection_step x)^[n] v) ∧
    (∀ x : DiffusionArgs ℂ,
      (Diffusion_step x)^[n] (a • u + v) = a • (Diffusion_step x)^[n] u + (Diffusion_step x)^[n] v) ∧
    (∀ x : AdvectionDiffusionArgs ℂ,
      (AdvectionDiffusion_step x)^[n] (a • u + v)
        = a • (AdvectionDiffusion_step x)^[n] u + (AdvectionDiffusion_step x)^[n] v) ∧
    (∀ x : DispersionArgs ℂ,
      (Dispersion_step x)^[n] (a • u + v) = a • (Dispersion_step x)^[n] u + (Dispersion_step x)^[n] v) ∧
    (∀ x : HyperDiffusionArgs ℂ,
      (HyperDiffusion_step x)^[n] (a • u + v)
        = a • (HyperDiffusion_step x)^[n] u + (HyperDiffusion_step x)^[n] v) :=
  ⟨fun g => (GeneralLinearStepper_step_specLinear g).iterate n a u v,
   fun x => (Advection_step_specLinear x).iterate n a u v,
   fun x => (Diffusion_step_specLinear x).iterate n a u v,
   fun x => (AdvectionDiffusion_step_specLinear x).iterate n a u v,
   fun x => (Dispersion_step_specLinear x).iterate n a u v,
   fun x => (HyperDiffusion_step_specLinear x).iterate n a u v⟩

/-- **the step is its own Jacobian, also through rollouts.**  For every number of steps `n` (one step: `n = 1`), every
    base point `u` and every increment `h` (of any size): `step^n (u + h) − step^n u = step^n h`.  The linearisation of
    the rollout at `u` applied to `h` is the rollout of `h`; it does not depend on `u`. -/
theorem C07_assembled_linear_step_is_its_own_jacobian (n : ℕ) (u h : Spec) :
    (∀ g : GeneralLinearStepperArgs ℂ,
      (GeneralLinearStepper_step g)^[n] (u + h) - (GeneralLinearStepper_step g)^[n] u
        = (GeneralLinearStepper_step g)^[n] h) ∧
    (∀ x : AdvectionArgs ℂ, (Advection_step x)^[n] (u + h) - (Advection_step x)^[n] u = (Advection_step x)^[n] h) ∧
    (∀ x : DiffusionArgs ℂ, (Diffusion_step x)^[n] (u + h) - (Diffusion_step x)^[n] u = (Diffusion_step x)^[n] h) ∧
    (∀ x : AdvectionDiffusionArgs ℂ,
      (AdvectionDiffusion_step x)^[n] (u + h) - (AdvectionDiffusion_step x)^[n] u
        = (AdvectionDiffusion_step x)^[n] h) ∧
    (∀ x : DispersionArgs ℂ,
      (Dispersion_step x)^[n] (u + h) - (Dispersion_step x)^[n] u = (Dispersion_step x)^[n] h) ∧
    (∀ x : HyperDiffusionArgs ℂ,
      (HyperDiffusion_step x)^[n] (u + h) - (HyperDiffusion_step x)^[n] u = (HyperDiffusion_step x)^[n] h) :=
  ⟨fun g => ((GeneralLinearStepper_step_specLinear g).iterate n).increment u h,
   fun x => ((Advection_step_specLinear x).iterate n).increment u h,
   fun x => ((Diffusion_step_specLinear x).iterate n).increment u h,
   fun x => ((AdvectionDiffusion_step_specLinear x).iterate n).increment u h,
   fun x => ((Dispersion_step_specLinear x).iterate n).increment u h,
   fun x => ((HyperDiffusion_step_specLinear x).iterate n).increment u h⟩

/-- the single step written out (`n = 1` of the previous theorem, without the iterate) for the generic linear stepper,
    together with the Jacobian's entries: the increment at mode `(ch, k)` is `exp(dt · λ_k) · h ch k` — a diagonal
    Jacobian with the propagator on the diagonal -/
theorem C07_assembled_general_linear_jacobian_entries (g : GeneralLinearStepperArgs ℂ) (u h : Spec) (ch k : ℕ) :
    GeneralLinearStepper_step g (u + h) - GeneralLinearStepper_step g u = GeneralLinearStepper_step g h ∧
    (GeneralLinearStepper_step g (u + h) - GeneralLinearStepper_step g u) ch k
      = Complex.exp (g.dt * Nonlin.polySymbol (cfgOf g.num_spatial_dims g.num_points g.domain_extent (0, 0))
          (generalLinear g.num_spatial_dims g.linear_coefficients) k) * h ch k := by
  have e := (GeneralLinearStepper_step_specLinear g).increment u h
  exact ⟨e, by rw [e, GeneralLinearStepper_step_apply]⟩

/-- **every order.**  The linear classes pass `order = 0` to `BaseStepper` (first clause: the regenerated base
    arguments).  The conclusion does not rest on that: `BaseStepper` assembled with ANY base arguments `b` — any order
    `b.order : ℕ` (0–4 the five ETDRK methods), `dt`, contour, grid —, ANY linear operator and the regenerated
    (identically zero) nonlinear function of the linear family is a linear map, so is every rollout, and it is its own
    linearisation; for `order ≤ 4` it is entrywise the multiplication by `exp_term dt λ`. -/
theorem C07_assembled_zero_nonlinear_fun_linear_for_every_order (b : BaseStepperArgs ℂ) (linop : List ℂ → ℂ)
    (g : GeneralLinearStepperArgs ℂ) :
    (GeneralLinearStepper_base_args g).order = 0 ∧
    (∀ (n : ℕ) (a : ℂ) (u v : Spec),
      (baseStep b linop (fun c => GeneralLinearStepper_stepper_nonlinear_fun c g))^[n] (a • u + v)
        = a • (baseStep b linop (fun c => GeneralLinearStepper_stepper_nonlinear_fun c g))^[n] u
          + (baseStep b linop (fun c => GeneralLinearStepper_stepper_nonlinear_fun c g))^[n] v) ∧
    (∀ (n : ℕ) (u h : Spec),
      (baseStep b linop (fun c => GeneralLinearStepper_stepper_nonlinear_fun c g))^[n] (u + h)
        - (baseStep b linop (fun c => GeneralLinearStepper_stepper_nonlinear_fun c g))^[n] u
        = (baseStep b linop (fun c => GeneralLinearStepper_stepper_nonlinear_fun c g))^[n] h) ∧
    (∀ (p : ℕ) (dt : ℂ) (lam : Spec) (M : ℕ) (r : ℂ) (a : ℂ) (u v : Spec),
      etdrkStep p dt lam M r (fun _ => 0) (a • u + v)
        = a • etdrkStep p dt lam M r (fun _ => 0) u + etdrkStep p dt lam M r (fun _ => 0) v) ∧
    (∀ (p : ℕ), p ≤ 4 → ∀ (dt : ℂ) (lam : Spec) (M : ℕ) (r : ℂ) (u : Spec) (ch k : ℕ),
      etdrkStep p dt lam M r (fun _ => 0) u ch k = exp_term dt (lam ch k) * u ch k) :=
  ⟨linear_family_order_eq_zero.1 g,
   fun n a u v => (baseStep_GeneralLinear_nonlin_specLinear b linop g).iterate n a u v,
   fun n u h => ((baseStep_GeneralLinear_nonlin_specLinear b linop g).iterate n).increment u h,
   fun p dt lam M r a u v => etdrkStep_zeroN_specLinear p dt lam M r a u v,
   fun p hp dt lam M r u ch k => etdrkStep_zeroN_apply p hp dt lam M r u ch k⟩

/-- order 0 alone: the exact propagator is linear whatever nonlinear map the class supplies (it is never evaluated) -/
theorem C07_assembled_order0_linear_for_any_nonlinear_fun (b : BaseStepperArgs ℂ) (hb : b.order = 0)
    (linop : List ℂ → ℂ) (nonlin : Nonlin.Cfg ℂ → Nonlin.MC ℂ → Nonlin.MC ℂ) (n : ℕ) (a : ℂ) (u v h : Spec) :
    (baseStep b linop nonlin)^[n] (a • u + v) = a • (baseStep b linop nonlin)^[n] u + (baseStep b linop nonlin)^[n] v ∧
    (baseStep b linop nonlin)^[n] (u + h) - (baseStep b linop nonlin)^[n] u = (baseStep b linop nonlin)^[n] h :=
  ⟨(baseStep_order0_specLinear b hb linop nonlin).iterate n a u v,
   ((baseStep_order0_specLinear b hb linop nonlin).iterate n).increment u h⟩

/-! non-vacuity: the theorems have no hypotheses beyond the constructor arguments; a concrete argument record of each
kind exists, the step of a concrete `GeneralLinearStepper` is not the zero map (so linearity is not trivial), base
arguments with `order = 0` and with `order = 4` exist, and linearity is a real restriction on maps `Spec → Spec`. -/
example : ∃ g : GeneralLinearStepperArgs ℂ, g.num_spatial_dims = 1 ∧ g.linear_coefficients = [0, -1, 0.01] :=
  ⟨{ num_spatial_dims := 1, domain_extent := 1, num_points := 8, dt := 1, linear_coefficients := [0, -1, 0.01] },
   rfl, rfl⟩

example : ∃ (g : GeneralLinearStepperArgs ℂ) (u : Spec), GeneralLinearStepper_step g u ≠ 0 := by
  refine ⟨{ num_spatial_dims := 1, domain_extent := 1, num_points := 8, dt := 1, linear_coefficients := [] }, 1, ?_⟩
  intro h
  have h0 := congrFun (congrFun h 0) 0
  rw [GeneralLinearStepper_step_apply] at h0
  exact mul_ne_zero (Complex.exp_ne_zero _) one_ne_zero h0

example : ∃ b : BaseStepperArgs ℂ, b.order = 0 :=
  ⟨{ num_spatial_dims := 1, domain_extent := 1, num_points := 8, dt := 1, num_channels := 1, order := 0,
     num_circle_points := 16, circle_radius := 1 }, rfl⟩

example : ∃ b : BaseStepperArgs ℂ, b.order = 4 :=
  ⟨{ num_spatial_dims := 1, domain_extent := 1, num_points := 8, dt := 1, num_channels := 1, order := 4,
     num_circle_points := 16, circle_radius := 1 }, rfl⟩

example : ¬ SpecLinear (fun u : Spec => u * u) := by
  intro h
  have h1 := congrFun (congrFun (h 2 1 0) 0) 0
  norm_num at h1

end Exponax
