import Mathlib.Tactic
import ExponaxModel.Model.Layout
import ExponaxModel.Proofs.ReadOffSpectrum
import ExponaxModel.Proofs.ReadOffParseval
import ExponaxModel.Proofs.SpectralOpsEq
import ExponaxModel.Proofs.SmallGapsSpectrum
import ExponaxModel.Proofs.SmallGaps3Nyquist
/-
C17 — radial spectrum: every mode lands in its documented bin.
Integer part: the half-open bins `[b−½, b+½)` of `get_spectrum`, written on `4|k|²`.
-/
set_option linter.unusedVariables false
namespace Exponax
open Exponax.Layout

theorem normSq_nonneg (k : List ℤ) : 0 ≤ normSq k := by
  unfold normSq
  have h : ∀ (l : List ℤ) (a : ℤ), 0 ≤ a → 0 ≤ (l.map (fun kd => kd * kd)).foldl (· + ·) a := by
    intro l
    induction l with
    | nil => intro a ha; simpa
    | cons x xs ih =>
      intro a ha
      simp only [List.map_cons, List.foldl_cons]
      exact ih _ (by nlinarith [mul_self_nonneg x])
  exact h k 0 le_rfl

/-- NO TIE: no integer wavenumber vector sits on a bin edge `b ± ½` (`4|k|²` is even, `(2b±1)²` is odd);
    so `>=`/`>` at the edges cannot matter and half-open binning coincides with rounding `|k|` -/
theorem C17_no_tie (k : List ℤ) (b : ℤ) : 4 * normSq k ≠ (2 * b + 1) * (2 * b + 1) := by
  intro h
  have : (4 * normSq k) % 2 = ((2 * b + 1) * (2 * b + 1)) % 2 := by rw [h]
  have h1 : (4 * normSq k) % 2 = 0 := by omega
  have h2 : ((2 * b + 1) * (2 * b + 1)) % 2 = 1 := by
    have : (2 * b + 1) * (2 * b + 1) = 2 * (2 * b * b + 2 * b) + 1 := by ring
    omega
  omega

/-- the bin test in integer form -/
theorem C17_inBin_iff (k : List ℤ) (b : ℕ) :
    inBin k b = true ↔
      ((2 * (b : ℤ) - 1 ≤ 0 ∨ (2 * (b : ℤ) - 1) * (2 * (b : ℤ) - 1) ≤ 4 * normSq k) ∧
        4 * normSq k < (2 * (b : ℤ) + 1) * (2 * (b : ℤ) + 1)) := by
  simp [inBin]

/-- strict form: bin `b ≥ 1` holds exactly the modes with `(2b−1)² < 4|k|² < (2b+1)²`, i.e. `round(|k|) = b` -/
theorem C17_inBin_strict (k : List ℤ) (b : ℕ) (hb : 1 ≤ b) :
    inBin k b = true ↔
      ((2 * (b : ℤ) - 1) * (2 * (b : ℤ) - 1) < 4 * normSq k ∧ 4 * normSq k < (2 * (b : ℤ) + 1) * (2 * (b : ℤ) + 1)) := by
  rw [C17_inBin_iff]
  have hne := C17_no_tie k ((b : ℤ) - 1)
  have e : (2 * ((b : ℤ) - 1) + 1) = 2 * (b : ℤ) - 1 := by ring
  rw [e] at hne
  have hb' : ¬ (2 * (b : ℤ) - 1 ≤ 0) := by omega
  constructor
  · rintro ⟨h1, h2⟩
    rcases h1 with h1 | h1
    · exact absurd h1 hb'
    · exact ⟨lt_of_le_of_ne h1 (Ne.symm hne), h2⟩
  · rintro ⟨h1, h2⟩
    exact ⟨Or.inr (le_of_lt h1), h2⟩

/-- bin 0 holds exactly the mean mode -/
theorem C17_bin_zero (k : List ℤ) : inBin k 0 = true ↔ normSq k = 0 := by
  rw [C17_inBin_iff]
  have := normSq_nonneg k
  constructor
  · rintro ⟨_, h⟩; push_cast at h; omega
  · intro h; rw [h]; simp

/-- UNIQUENESS: a mode contributes to at most one bin -/
theorem C17_bin_unique (k : List ℤ) (b b' : ℕ) (h : inBin k b = true) (h' : inBin k b' = true) : b = b' := by
  rw [C17_inBin_iff] at h h'
  by_contra hne
  rcases Nat.lt_or_gt_of_ne hne with hlt | hlt
  · -- b < b': upper edge of b is ≤ lower edge of b'
    have h1 : (2 * (b : ℤ) + 1) ≤ 2 * (b' : ℤ) - 1 := by omega
    have hpos : (0 : ℤ) ≤ 2 * (b : ℤ) + 1 := by omega
    rcases h'.1 with h2 | h2
    · omega
    · nlinarith [h.2, mul_le_mul h1 h1 hpos (by omega : (0 : ℤ) ≤ 2 * (b' : ℤ) - 1)]
  · have h1 : (2 * (b' : ℤ) + 1) ≤ 2 * (b : ℤ) - 1 := by omega
    have hpos : (0 : ℤ) ≤ 2 * (b' : ℤ) + 1 := by omega
    rcases h.1 with h2 | h2
    · omega
    · nlinarith [h'.2, mul_le_mul h1 h1 hpos (by omega : (0 : ℤ) ≤ 2 * (b : ℤ) - 1)]

/-- modes outside the Nyquist sphere (`2|k| > 2(N/2)+1`) are in no bin `0 … N/2` -/
theorem C17_outside_dropped (k : List ℤ) (n b : ℕ) (hb : b ≤ n)
    (hout : (2 * (n : ℤ) + 1) * (2 * (n : ℤ) + 1) < 4 * normSq k) : inBin k b = false := by
  by_contra hc
  have hc' : inBin k b = true := by simpa using hc
  rw [C17_inBin_iff] at hc'
  have h1 : (2 * (b : ℤ) + 1) ≤ 2 * (n : ℤ) + 1 := by omega
  nlinarith [hc'.2, mul_le_mul h1 h1 (by omega : (0 : ℤ) ≤ 2 * (b : ℤ) + 1) (by omega : (0 : ℤ) ≤ 2 * (n : ℤ) + 1)]

/-- `binOf` (what the check compares with the implementation for every mode) returns the bin that holds the mode -/
theorem C17_binOf_sound (k : List ℤ) (bound b : ℕ) (h : binOf k bound = some b) : inBin k b = true ∧ b ≤ bound := by
  unfold binOf at h
  have := List.find?_some h
  have hm := List.mem_of_find?_eq_some h
  simp only [List.mem_range] at hm
  exact ⟨this, by omega⟩

/-- an on-axis mode `(0,…,0,b)` lies in bin `b`: every bin `0 … N/2` is non-empty, so the average binning
    never divides by zero -/
theorem C17_axis_mode_in_bin (b : ℕ) : inBin [0, (b : ℤ)] b = true ∧ inBin [(b : ℤ)] b = true ∧ inBin [0, 0, (b : ℤ)] b = true := by
  simp only [C17_inBin_iff, normSq, List.map_cons, List.map_nil, List.foldl_cons, List.foldl_nil]
  have lower : (2 * (b : ℤ) - 1 ≤ 0 ∨ (2 * (b : ℤ) - 1) * (2 * (b : ℤ) - 1) ≤ 4 * ((b : ℤ) * (b : ℤ))) := by
    rcases Nat.eq_zero_or_pos b with h | h
    · left; subst h; simp
    · right
      have : (1 : ℤ) ≤ b := by exact_mod_cast h
      nlinarith
  have upper : 4 * ((b : ℤ) * (b : ℤ)) < (2 * (b : ℤ) + 1) * (2 * (b : ℤ) + 1) := by
    have : (0 : ℤ) ≤ b := by positivity
    nlinarith
  exact ⟨⟨by simpa using lower, by simpa using upper⟩, ⟨by simpa using lower, by simpa using upper⟩,
    ⟨by simpa using lower, by simpa using upper⟩⟩

/-! non-vacuity -/
example : inBin [3, 4] 5 = true := by decide
example : inBin [1, 1] 1 = true ∧ inBin [1, 1] 2 = false := by decide
example : binOf [2, -2, 1] 8 = some 3 := by decide

/-! ### through the model `Spectrum.spectrum` itself, every dimension (`Proofs/ReadOffSpectrum.lean`, `ReadOffParseval.lean`) -/

/-- AMPLITUDE READ-OFF: `a cos(κ·x + φ)` (κ ≠ 0 strictly below Nyquist, either sign of the last component, also the
    self-paired case κ_last = 0) shows `|a|` in the bin that contains `|κ|` and 0 in every other bin -/
theorem C17_amplitude_readoff (D N : ℕ) (hD : 1 ≤ D) (hN : 0 < N) (κ : List ℤ) (hκ : ExactLinear.BelowNyquist D N κ)
    (hne : ∃ d < D, κ.getD d 0 ≠ 0) (a φ : ℝ) (b : ℕ) (hb : b < N / 2 + 1) :
    (Spectrum.spectrum D N false false (ExactLinear.modeField D N κ a φ)).getD b 0 =
      if Layout.inBin κ b = true then ((|a| : ℝ) : ℂ) else 0 :=
  ReadOff.spectrum_amplitude_modeField D N hD hN κ hκ hne a φ b hb

/-- POWER: the same mode contributes `a²/4 = ½·mean(u²)` to that bin only -/
theorem C17_power_readoff (D N : ℕ) (hD : 1 ≤ D) (hN : 0 < N) (κ : List ℤ) (hκ : ExactLinear.BelowNyquist D N κ)
    (hne : ∃ d < D, κ.getD d 0 ≠ 0) (a φ : ℝ) (b : ℕ) (hb : b < N / 2 + 1) :
    (Spectrum.spectrum D N true false (ExactLinear.modeField D N κ a φ)).getD b 0 =
      if Layout.inBin κ b = true then ((a ^ 2 / 4 : ℝ) : ℂ) else 0 :=
  ReadOff.spectrum_power_modeField D N hD hN κ hκ hne a φ b hb

/-- 1-D: the FULL Parseval identity for every real state, sum and average binning alike -/
theorem C17_parseval_1d (N : ℕ) (hN : 0 < N) (average : Bool) (u : Array ℂ) (hu : ∀ j < N, (u.getD j 0).im = 0) :
    ∑ b ∈ Finset.range (N / 2 + 1), (Spectrum.spectrum 1 N true average u).getD b 0 =
      ((1 / 2 * (1 / (N : ℝ) * ∑ j ∈ Finset.range N, ‖u.getD j 0‖ ^ 2) : ℝ) : ℂ) :=
  ReadOff.spectrum_parseval_1d N hN average u hu

/-- n-D: summed power + the power of the stored modes OUTSIDE the Nyquist sphere (which the binning drops, as the
    property says) = half the mean square of the state — every real state -/
theorem C17_parseval_nd (D N : ℕ) (hD : 1 ≤ D) (hN : 0 < N) (u : Array ℂ) (hu : ∀ j < N ^ D, (u.getD j 0).im = 0) :
    (∑ b ∈ Finset.range (N / 2 + 1), (Spectrum.spectrum D N true false u).getD b 0 +
        ∑ h ∈ Finset.range (Layout.numModes D N),
          if Layout.roundNorm (Layout.wnFlat D N h) < N / 2 + 1 then 0
          else Spectrum.quantity D N true (Transform.rfftnM D N u) h) =
      ((1 / 2 * (1 / ((N ^ D : ℕ) : ℝ) * ∑ j ∈ Finset.range (N ^ D), ‖u.getD j 0‖ ^ 2) : ℝ) : ℂ) :=
  ReadOff.spectrum_parseval_nd D N hD hN u hu

/-! ### the read-off code itself (`get_spectrum`, `get_fourier_coefficients`), regenerated from `_spectral.py` on every
run, is the model read-off the theorems above are about -/
open Exponax.SpectralOpsEq in
theorem C17_generated_get_spectrum (D N C : ℕ) (hD : 1 ≤ D) (hN : 0 < N) (hN2 : D = 1 ∨ 2 ≤ N) (power : Bool)
    (rb : String) (state : Nonlin.MC ℂ) :
    Gen.SpectralOps.get_spectrum D N C power rb state =
      Nonlin.tabC C (fun ch => Spectrum.spectrum D N power (decide (rb = "average")) (state.getD ch #[])) :=
  get_spectrum_eq D N C hD hN hN2 power rb state

open Exponax.SpectralOpsEq in
/-- the coefficient read-off divides the transform by the documented scaling of the mode (and rounds, if asked);
    an unknown compensation mode is an error -/
theorem C17_generated_get_fourier_coefficients [Gen.SpectralOps.HasRoundTo ℂ] (D N C : ℕ) (hD : 1 ≤ D) (hN : 0 < N)
    (m : String) (code : ℕ) (hm : (m, code) ∈ modeCodes) (round : Option ℕ) (state : Nonlin.MC ℂ) :
    Gen.SpectralOps.get_fourier_coefficients D N C (some m) round "ij" state =
      some (Nonlin.tab2 C (Layout.numModes D N) (fun ch h =>
        roundOpt round ((Transform.rfftnM D N (state.getD ch #[])).getD h 0 /
          Layout.scaling D N code (Layout.unflatten (Layout.wavenumberShape D N) h)))) :=
  get_fourier_coefficients_eq D N C hD hN m code hm round state



/-! ### radial_binning = "average" is the sum divided by the number of stored modes of the bin (every D, state, bin), and
every bin up to N/2 is populated -/

open Exponax.SmallGaps in
theorem C17_average_is_sum_over_count :
    ∀ (D N : ℕ) (p : Bool) (u : Array ℂ) (b : ℕ),
      (Spectrum.spectrum D N p true u).getD b 0 = (Spectrum.spectrum D N p false u).getD b 0 / ↑(binCount D N b) :=
  @Exponax.SmallGaps.spectrum_average_eq_sum_div_count

open Exponax.SmallGaps in
theorem C17_every_bin_is_populated :
    ∀ (D N b : ℕ), 1 ≤ D → 0 < N → b ≤ N / 2 → 0 < binCount D N b :=
  @Exponax.SmallGaps.binCount_pos



/-! ### read-off INCLUDING Nyquist wavenumbers (even N): a self-conjugate wave shows |a cos φ| (amplitude) in its bin, any other
wave with Nyquist components |a| resp. a²/4 as below Nyquist, and a Nyquist wave outside the sphere appears in no bin -/

open Exponax.SmallGaps3 in
theorem C17_amplitude_readoff_self_conjugate :
    ∀ (D N : ℕ),
      1 ≤ D →
        0 < N →
          ∀ (κ : List ℤ),
            SmallGaps2.AtMostNyquist D N κ →
              SmallGaps2.SelfConj D N κ →
                ∀ (a φ : ℝ),
                  ∀ b < N / 2 + 1,
                    (Spectrum.spectrum D N false false (ExactLinear.modeField D N κ a φ)).getD b 0 =
                      if Layout.inBin κ b = true then ↑|a * Real.cos φ| else 0 :=
  @Exponax.SmallGaps3.spectrum_amplitude_selfconj

open Exponax.SmallGaps3 in
theorem C17_amplitude_readoff_at_nyquist :
    ∀ (D N : ℕ),
      1 ≤ D →
        0 < N →
          ∀ (κ : List ℤ),
            SmallGaps2.AtMostNyquist D N κ →
              ¬SmallGaps2.SelfConj D N κ →
                ∀ (a φ : ℝ),
                  ∀ b < N / 2 + 1,
                    (Spectrum.spectrum D N false false (ExactLinear.modeField D N κ a φ)).getD b 0 =
                      if Layout.inBin κ b = true then ↑|a| else 0 :=
  @Exponax.SmallGaps3.spectrum_amplitude_nyquist

open Exponax.SmallGaps3 in
theorem C17_power_readoff_at_nyquist :
    ∀ (D N : ℕ),
      1 ≤ D →
        0 < N →
          ∀ (κ : List ℤ),
            SmallGaps2.AtMostNyquist D N κ →
              ¬SmallGaps2.SelfConj D N κ →
                ∀ (a φ : ℝ),
                  ∀ b < N / 2 + 1,
                    (Spectrum.spectrum D N true false (ExactLinear.modeField D N κ a φ)).getD b 0 =
                      if Layout.inBin κ b = true then ((a ^ 2 / 4 : ℝ) : ℂ) else 0 :=
  @Exponax.SmallGaps3.spectrum_power_nyquist

open Exponax.SmallGaps3 in
theorem C17_nyquist_wave_outside_sphere_dropped :
    ∀ (D N : ℕ),
      1 ≤ D →
        0 < N →
          ∀ (κ : List ℤ),
            SmallGaps2.AtMostNyquist D N κ →
              N / 2 + 1 ≤ Layout.roundNorm κ →
                ∀ (power : Bool) (a φ : ℝ),
                  ∀ b < N / 2 + 1, (Spectrum.spectrum D N power false (ExactLinear.modeField D N κ a φ)).getD b 0 = 0 :=
  @Exponax.SmallGaps3.spectrum_nyquist_dropped


end Exponax
