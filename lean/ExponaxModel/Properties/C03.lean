import ExponaxModel.Proofs.Aliasing
import ExponaxModel.Proofs.CrossProduct
import ExponaxModel.Proofs.LayoutLemmas
/-
C03 — nonlinear terms equal the alias-free projection of the documented operator.

`Nonlin.*` are the hand-written mirrors of `exponax/nonlin_fun/*.py` and the reaction nonlinearities (tied to
the implementation by the correspondence, term by term, D = 1, 2, 3, every N in range); `Gen.Misc.dealias_cutoff`
and `Gen.Misc.cross_product_3d` are regenerated from the source.

`X m := trunc K (dft N x) m` is the spectrum of the band-truncated state (`K = Kc c` the largest retained
wavenumber); the right-hand sides are LINEAR convolutions over the band: no wrapped-around (aliased) term
contributes.  `(1/N)·Σ_m X_m X_{h−m}` is `N ×` the `h`-th Fourier coefficient of the square of the
trigonometric polynomial (C03_convolution_is_product), the normalisation of the unnormalised forward transform.
-/
set_option linter.unusedVariables false
namespace Exponax
open Exponax.Alias Exponax.Nonlin Exponax.Layout

/-! ### the cutoff arithmetic: every grid size, odd or even -/

/-- 2/3 rule: the largest retained wavenumber `K` satisfies `3K < N` (so `k₁ + k₂ ≡ k₃ (mod N)` with all
    three in the band forces `k₁ + k₂ = k₃`) -/
theorem C03_cutoff_quadratic (c : Cfg ℂ) (hp : c.fp = 2) (hq : c.fq = 3) : 3 * Kc c < c.N ∧ 2 * Kc c < c.N :=
  Kc_two_thirds c hp hq

/-- 1/2 rule for cubic terms: `4K < N` -/
theorem C03_cutoff_cubic (c : Cfg ℂ) (hp : c.fp = 1) (hq : c.fq = 2) : 4 * Kc c < c.N := Kc_half c hp hq

theorem C03_no_alias_quadratic (N : ℕ) (K : ℤ) (hK : 3 * K < N) (a b h : ℤ) (ha : |a| ≤ K) (hb : |b| ≤ K)
    (hh : |h| ≤ K) (hd : (N : ℤ) ∣ a + b - h) : a + b = h :=
  band_no_alias_quadratic N K hK a b h ha hb hh hd

/-- FLOAT-EVALUATED CUTOFF.  The implementation evaluates `frac·(N//2) − 1` in binary64 (N = 49, frac = 2/3 gives
    14.999999999999998: band `K = 14`, one less than the rational `15`).  The check drives the model with the
    effective rational fraction `(K_float + 1)/(N/2)`; its retained band is exactly `K_float` … -/
theorem C03_effective_cutoff (c : Cfg ℂ) (K : ℕ) (hp : c.fp = K + 1) (hq : c.fq = c.N / 2) (hN : 0 < c.N / 2) :
    Kc c = (K : ℤ) := Kc_of_effective c K hp hq hN

/-- … and whenever `K_float` does not exceed the rational 2/3 (resp. 1/2) cutoff — compared exhaustively by the
    check — the hypotheses `3K < N` (resp. `4K < N`) of the alias-free theorems below hold -/
theorem C03_effective_cutoff_bounds (c : Cfg ℂ) (K : ℕ) (hp : c.fp = K + 1) (hq : c.fq = c.N / 2) (hN : 0 < c.N / 2) :
    ((K : ℤ) * 3 ≤ 2 * ((c.N / 2 : ℕ) : ℤ) - 3 → 3 * Kc c < (c.N : ℤ)) ∧
    ((K : ℤ) * 2 ≤ ((c.N / 2 : ℕ) : ℤ) - 2 → 4 * Kc c < (c.N : ℤ)) :=
  ⟨Kc_effective_two_thirds c K hp hq hN, Kc_effective_half c K hp hq hN⟩

/-- the mask keeps exactly the stored modes `h ≤ K` (1-D) -/
theorem C03_mask (c : Cfg ℂ) (hD : c.D = 1) (hq : c.fq ≠ 0) (h : ℕ) :
    mask c h = if (h : ℤ) ≤ Kc c then 1 else 0 := mask_one c hD hq h

/-- in every dimension the mask is the axis-separate low-pass at the rational cutoff -/
theorem C03_mask_iff (N fp fq : ℕ) (k : List ℤ) :
    dealiasMask N fp fq k = true ↔ ∀ kd ∈ k, |kd| * (fq : ℤ) ≤ (fp : ℤ) * ((N / 2 : ℕ) : ℤ) - (fq : ℤ) :=
  dealiasMask_iff N fp fq k

/-! ### the pseudo-spectral product is exact on band-limited fields -/

/-- circular convolution theorem (no band limitation) -/
theorem C03_circular_convolution (N : ℕ) (hN : 0 < N) (u v : Array ℂ) (h : ℤ) :
    DFT.dft N (Transform.tab N fun j => u.getD j 0 * v.getD j 0) h
      = 1 / (N : ℂ) * ∑ a ∈ Finset.range N, DFT.dft N u a * DFT.dft N v (h - a) :=
  dft_mul N hN u v h

/-- ALIAS-FREE: for band-limited `u`, `v` and `3K < N` the retained coefficients of the grid product are the
    linear convolution of the two band spectra -/
theorem C03_pseudospectral_exact (N : ℕ) (hN : 0 < N) (K : ℤ) (hK : 3 * K < N) (u v : Array ℂ)
    (hu : BandLimited N K u) (hv : BandLimited N K v) (h : ℤ) (hh : |h| ≤ K) :
    DFT.dft N (Transform.tab N fun j => u.getD j 0 * v.getD j 0) h
      = 1 / (N : ℂ) * ∑ m ∈ Finset.Icc (-K) K, trunc K (DFT.dft N u) m * trunc K (DFT.dft N v) (h - m) :=
  dft_mul_no_alias' N hN K hK u v hu hv h hh

theorem C03_pseudospectral_exact_cubic (N : ℕ) (hN : 0 < N) (K : ℤ) (hK : 4 * K < N) (u v w : Array ℂ)
    (hu : BandLimited N K u) (hv : BandLimited N K v) (hw : BandLimited N K w) (h : ℤ) (hh : |h| ≤ K) :
    DFT.dft N (Transform.tab N fun j => u.getD j 0 * v.getD j 0 * w.getD j 0) h
      = 1 / (N : ℂ) ^ 2 * ∑ a ∈ Finset.Icc (-K) K, ∑ b ∈ Finset.Icc (-K) K,
          trunc K (DFT.dft N u) a * trunc K (DFT.dft N v) b * trunc K (DFT.dft N w) (h - a - b) :=
  dft_mul3_no_alias' N hN K hK u v w hu hv hw h hh

/-- the linear convolution over the band IS the coefficient sequence of the product of the two
    trigonometric polynomials -/
theorem C03_convolution_is_product (K : ℤ) (U V : ℤ → ℂ) (z : ℂ) (hz : z ≠ 0) :
    (∑ a ∈ Finset.Icc (-K) K, U a * z ^ a) * ∑ b ∈ Finset.Icc (-K) K, V b * z ^ b
      = ∑ h ∈ Finset.Icc (-(2 * K)) (2 * K), (∑ m ∈ Finset.Icc (-K) K, trunc K U m * trunc K V (h - m)) * z ^ h :=
  sum_trunc_conv_eq_mul K U V z hz

/-- `ifft(mask·û)` is the band truncation `P_K` of the state -/
theorem C03_predealias (c : Cfg ℂ) (hD : c.D = 1) (hq : c.fq ≠ 0) (hN : 0 < c.N) (hK : 2 * Kc c < c.N)
    (x : Array ℂ) (hx : IsRealField c.N x) :
    BandLimited c.N (Kc c) (nifft c (Transform.rfftnM 1 c.N x)) ∧
    ∀ m : ℤ, |m| ≤ Kc c → DFT.dft c.N (nifft c (Transform.rfftnM 1 c.N x)) m = DFT.dft c.N x m :=
  ⟨nifft_bandLimited c hD hq hN _, dft_nifft_rfft c hD hq hN hK x hx⟩

/-! ### the built-in terms (1-D, one channel, every `N ≥ 1`, real state `x`, `û = rfft x`).
Hypotheses: any dealiasing fraction whose retained band satisfies `3·K < N` (quadratic terms; the documented 2/3 by
`C03_cutoff_quadratic`, and its float evaluation by `C03_effective_cutoff_bounds`) resp. `4·K < N` (cubic; 1/2). -/

/-- conservative convection `−b·½ ∂_x (P_K u)²`, projected -/
theorem C03_convection_conservative (c : Cfg ℂ) (hD : c.D = 1) (hq : c.fq ≠ 0) (hK : 3 * Kc c < (c.N : ℤ)) (hN : 0 < c.N)
    (scale : ℂ) (x : Array ℂ) (hx : IsRealField c.N x) (h : ℕ) (hh : h ≤ c.N / 2) :
    (mask c h = 1 →
        at2 (convection c 1 scale true true #[Transform.rfftnM 1 c.N x]) 0 h =
          -scale * (1 / 2) * deriv c 0 h *
            (1 / (c.N : ℂ) * ∑ m ∈ Finset.Icc (-Kc c) (Kc c),
              trunc (Kc c) (DFT.dft c.N x) m * trunc (Kc c) (DFT.dft c.N x) ((h : ℤ) - m))) ∧
      (mask c h = 0 → at2 (convection c 1 scale true true #[Transform.rfftnM 1 c.N x]) 0 h = 0) :=
  convection_one_alias_free_of_cutoff c hD hq hK hN scale x hx h hh

/-- non-conservative convection `−b (P_K u) ∂_x (P_K u)`, projected (both code paths) -/
theorem C03_convection_nonconservative (c : Cfg ℂ) (hD : c.D = 1) (hq : c.fq ≠ 0) (hK : 3 * Kc c < (c.N : ℤ)) (hN : 0 < c.N)
    (s : ℝ) (hs : c.s = (s : ℂ)) (scale : ℂ) (x : Array ℂ) (hx : IsRealField c.N x) (single : Bool) (h : ℕ)
    (hh : h ≤ c.N / 2) :
    (mask c h = 1 →
        at2 (convection c 1 scale single false #[Transform.rfftnM 1 c.N x]) 0 h =
          -scale * (1 / (c.N : ℂ) * ∑ m ∈ Finset.Icc (-Kc c) (Kc c),
            trunc (Kc c) (DFT.dft c.N x) m *
              (Complex.I * (c.s * (((h : ℤ) - m : ℤ) : ℂ)) * trunc (Kc c) (DFT.dft c.N x) ((h : ℤ) - m)))) ∧
      (mask c h = 0 → at2 (convection c 1 scale single false #[Transform.rfftnM 1 c.N x]) 0 h = 0) :=
  convection_nc_one_alias_free_of_cutoff c hD hq hK hN s hs scale x hx single h hh

/-- gradient norm `−b ½ (∂_x P_K u)²` (minus its mean when `zero_mode_fix`), projected -/
theorem C03_gradient_norm (c : Cfg ℂ) (hD : c.D = 1) (hq : c.fq ≠ 0) (hK : 3 * Kc c < (c.N : ℤ)) (hN : 0 < c.N)
    (s : ℝ) (hs : c.s = (s : ℂ)) (scale : ℂ) (zeroFix : Bool) (x : Array ℂ) (hx : IsRealField c.N x) (h : ℕ)
    (hh : h ≤ c.N / 2) :
    (mask c h = 1 →
        at2 (gradientNorm c 1 scale zeroFix #[Transform.rfftnM 1 c.N x]) 0 h =
          if zeroFix = true ∧ h = 0 then 0
          else -scale * (1 / 2) * (1 / (c.N : ℂ) * ∑ m ∈ Finset.Icc (-Kc c) (Kc c),
            Complex.I * (c.s * (m : ℂ)) * trunc (Kc c) (DFT.dft c.N x) m *
              (Complex.I * (c.s * (((h : ℤ) - m : ℤ) : ℂ)) * trunc (Kc c) (DFT.dft c.N x) ((h : ℤ) - m)))) ∧
      (mask c h = 0 → at2 (gradientNorm c 1 scale zeroFix #[Transform.rfftnM 1 c.N x]) 0 h = 0) :=
  gradientNorm_one_alias_free_of_cutoff c hD hq hK hN s hs scale zeroFix x hx h hh

/-- quadratic polynomial `c₀ + c₁ P_K u + c₂ (P_K u)²`, projected (2/3 rule) -/
theorem C03_polynomial_quadratic (c : Cfg ℂ) (hD : c.D = 1) (hq : c.fq ≠ 0) (hK : 3 * Kc c < (c.N : ℤ)) (hN : 0 < c.N)
    (c0 c1 c2 : ℂ) (x : Array ℂ) (hx : IsRealField c.N x) (h : ℕ) (hh : h ≤ c.N / 2) :
    (mask c h = 1 →
        at2 (polynomial c 1 [c0, c1, c2] #[Transform.rfftnM 1 c.N x]) 0 h =
          (c0 * if h = 0 then (c.N : ℂ) else 0) + c1 * DFT.dft c.N x h +
            c2 * (1 / (c.N : ℂ) * ∑ m ∈ Finset.Icc (-Kc c) (Kc c),
              trunc (Kc c) (DFT.dft c.N x) m * trunc (Kc c) (DFT.dft c.N x) ((h : ℤ) - m))) ∧
      (mask c h = 0 → at2 (polynomial c 1 [c0, c1, c2] #[Transform.rfftnM 1 c.N x]) 0 h = 0) :=
  polynomial_quadratic_alias_free_of_cutoff c hD hq hK hN c0 c1 c2 x hx h hh

/-- cubic polynomial `c₃ (P_K u)³`, projected (1/2 rule) -/
theorem C03_polynomial_cubic (c : Cfg ℂ) (hD : c.D = 1) (hq : c.fq ≠ 0) (hK : 4 * Kc c < (c.N : ℤ)) (hN : 0 < c.N)
    (c3 : ℂ) (x : Array ℂ) (hx : IsRealField c.N x) (h : ℕ) (hh : h ≤ c.N / 2) :
    (mask c h = 1 →
        at2 (polynomial c 1 [0, 0, 0, c3] #[Transform.rfftnM 1 c.N x]) 0 h =
          c3 * (1 / (c.N : ℂ) ^ 2 * ∑ a ∈ Finset.Icc (-Kc c) (Kc c), ∑ b ∈ Finset.Icc (-Kc c) (Kc c),
            trunc (Kc c) (DFT.dft c.N x) a * trunc (Kc c) (DFT.dft c.N x) b *
              trunc (Kc c) (DFT.dft c.N x) ((h : ℤ) - a - b))) ∧
      (mask c h = 0 → at2 (polynomial c 1 [0, 0, 0, c3] #[Transform.rfftnM 1 c.N x]) 0 h = 0) :=
  polynomial_cubic_alias_free_of_cutoff c hD hq hK hN c3 x hx h hh

/-- Cahn–Hilliard `ν c₃ Δ (P_K u)³`, projected (1/2 rule) -/
theorem C03_cahn_hilliard (c : Cfg ℂ) (hD : c.D = 1) (hq : c.fq ≠ 0) (hK : 4 * Kc c < (c.N : ℤ)) (hN : 0 < c.N)
    (scale : ℂ) (x : Array ℂ) (hx : IsRealField c.N x) (h : ℕ) (hh : h ≤ c.N / 2) :
    (mask c h = 1 →
        at2 (cahnHilliard c scale #[Transform.rfftnM 1 c.N x]) 0 h =
          laplace c 2 h * (1 / (c.N : ℂ) ^ 2 * ∑ a ∈ Finset.Icc (-Kc c) (Kc c), ∑ b ∈ Finset.Icc (-Kc c) (Kc c),
            trunc (Kc c) (DFT.dft c.N x) a * trunc (Kc c) (DFT.dft c.N x) b *
              trunc (Kc c) (DFT.dft c.N x) ((h : ℤ) - a - b)) * scale) ∧
      (mask c h = 0 → at2 (cahnHilliard c scale #[Transform.rfftnM 1 c.N x]) 0 h = 0) :=
  cahnHilliard_one_alias_free_of_cutoff c hD hq hK hN scale x hx h hh

/-! ### zero outside the retained band: every dimension, channel count, input -/

theorem C03_zero_outside_band (c : Cfg ℂ) (C : ℕ) (scale s0 s1 s2 : ℂ) (b1 b2 : Bool) (coeffs : List ℂ)
    (react : List ℂ → List ℂ) (uh : MC ℂ) (ch h : ℕ) (hm : mask c h = 0) :
    at2 (convection c C scale b1 b2 uh) ch h = 0 ∧ at2 (gradientNorm c C scale b1 uh) ch h = 0 ∧
    at2 (polynomial c C coeffs uh) ch h = 0 ∧ at2 (general c C s0 s1 s2 b1 uh) ch h = 0 ∧
    at2 (vorticity2d c scale none uh) ch h = 0 ∧ at2 (reaction c C react uh) ch h = 0 ∧
    at2 (cahnHilliard c scale uh) ch h = 0 :=
  ⟨convection_zero_off_band c C scale b1 b2 uh ch h hm, gradientNorm_zero_off_band c C scale b1 uh ch h hm,
    polynomial_zero_off_band c C coeffs uh ch h hm, general_zero_off_band c C s0 s1 s2 b1 uh ch h hm,
    vorticity2d_zero_off_band c scale uh ch h hm, reaction_zero_off_band c C react uh ch h hm,
    cahnHilliard_zero_off_band c scale uh ch h hm⟩

/-! ### regenerated cross product = documented formula -/

theorem C03_cross_product {R : Type} [CommRing R] (a1 a2 a3 b1 b2 b3 : R) :
    Gen.Misc.cross_product_3d (a1, a2, a3) (b1, b2, b3) = (a2 * b3 - a3 * b2, a3 * b1 - a1 * b3, a1 * b2 - a2 * b1) :=
  Cross.cross_formula a1 a2 a3 b1 b2 b3

/-
Not proved in Lean: the D = 2, 3 and multi-channel versions of the per-term statements (the aliasing argument
is axis-wise the same; the model terms for D = 2, 3 are tied to the implementation and to the convolution form
only by the correspondence / the 4x-oversampled oracle), and the per-term statement for `vorticity2d`,
`projected3d`, Gray-Scott beyond "zero outside the band".
-/

example : ∃ c : Cfg ℂ, c.D = 1 ∧ c.fp = 2 ∧ c.fq = 3 ∧ 0 < c.N ∧ mask c 3 = 1 :=
  ⟨{ D := 1, N := 12, s := 1, fp := 2, fq := 3 }, rfl, rfl, rfl, by decide, by
    rw [mask_one _ rfl (by decide)]; simp [Kc]⟩

end Exponax
