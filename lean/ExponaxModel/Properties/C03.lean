import ExponaxModel.Proofs.Aliasing
import ExponaxModel.Proofs.CrossProduct
import ExponaxModel.Proofs.LayoutLemmas
import ExponaxModel.Proofs.AliasND
import ExponaxModel.Generated.Misc
import ExponaxModel.Proofs.AliasND2Grad
import ExponaxModel.Proofs.AliasND2Conv
import ExponaxModel.Proofs.AliasND2Vort
import ExponaxModel.Proofs.AliasND2React
import ExponaxModel.Proofs.AliasND3Basic
import ExponaxModel.Proofs.AliasND3Rot
import ExponaxModel.Proofs.NonlinFunsEq
import ExponaxModel.Proofs.AliasMultiExamples
/-
C03 — nonlinear terms equal the alias-free projection of the documented operator.

`Nonlin.*` are the hand-written mirrors of `exponax/nonlin_fun/*.py` and the reaction nonlinearities (tied to
the implementation by the correspondence, term by term, D = 1, 2, 3, every N in range); `Gen.Misc.dealias_cutoff`
and `Gen.Misc.cross_product_3d` are regenerated from the source.

`X m := trunc K (dft N x) m` is the spectrum of the band-truncated state (`K = Kc c` the largest retained
wavenumber); the right-hand sides are LINEAR convolutions over the band: no wrapped-around (aliased) term
contributes.  `(1/N)·Σ_m X_m X_{h−m}` is `N ×` the `h`-th Fourier coefficient of the square of the
trigonometric polynomial (C03_convolution_is_product), the normalisation of the unnormalised forward transform.
-/
set_option linter.unusedVariables false
namespace Exponax
open Exponax.Alias Exponax.Nonlin Exponax.Layout

/-! ### the cutoff arithmetic: every grid size, odd or even -/

/-- 2/3 rule: the largest retained wavenumber `K` satisfies `3K < N` (so `k₁ + k₂ ≡ k₃ (mod N)` with all
    three in the band forces `k₁ + k₂ = k₃`) -/
theorem C03_cutoff_quadratic (c : Cfg ℂ) (hp : c.fp = 2) (hq : c.fq = 3) : 3 * Kc c < c.N ∧ 2 * Kc c < c.N :=
  Kc_two_thirds c hp hq

/-- 1/2 rule for cubic terms: `4K < N` -/
theorem C03_cutoff_cubic (c : Cfg ℂ) (hp : c.fp = 1) (hq : c.fq = 2) : 4 * Kc c < c.N := Kc_half c hp hq

theorem C03_no_alias_quadratic (N : ℕ) (K : ℤ) (hK : 3 * K < N) (a b h : ℤ) (ha : |a| ≤ K) (hb : |b| ≤ K)
    (hh : |h| ≤ K) (hd : (N : ℤ) ∣ a + b - h) : a + b = h :=
  band_no_alias_quadratic N K hK a b h ha hb hh hd

/-- FLOAT-EVALUATED CUTOFF.  The implementation evaluates `frac·(N//2) − 1` in binary64 (N = 49, frac = 2/3 gives
    14.999999999999998: band `K = 14`, one less than the rational `15`).  The check drives the model with the
    effective rational fraction `(K_float + 1)/(N/2)`; its retained band is exactly `K_float` … -/
theorem C03_effective_cutoff (c : Cfg ℂ) (K : ℕ) (hp : c.fp = K + 1) (hq : c.fq = c.N / 2) (hN : 0 < c.N / 2) :
    Kc c = (K : ℤ) := Kc_of_effective c K hp hq hN

/-- … and whenever `K_float` does not exceed the rational 2/3 (resp. 1/2) cutoff — compared exhaustively by the
    check — the hypotheses `3K < N` (resp. `4K < N`) of the alias-free theorems below hold -/
theorem C03_effective_cutoff_bounds (c : Cfg ℂ) (K : ℕ) (hp : c.fp = K + 1) (hq : c.fq = c.N / 2) (hN : 0 < c.N / 2) :
    ((K : ℤ) * 3 ≤ 2 * ((c.N / 2 : ℕ) : ℤ) - 3 → 3 * Kc c < (c.N : ℤ)) ∧
    ((K : ℤ) * 2 ≤ ((c.N / 2 : ℕ) : ℤ) - 2 → 4 * Kc c < (c.N : ℤ)) :=
  ⟨Kc_effective_two_thirds c K hp hq hN, Kc_effective_half c K hp hq hN⟩

/-- the mask keeps exactly the stored modes `h ≤ K` (1-D) -/
theorem C03_mask (c : Cfg ℂ) (hD : c.D = 1) (hq : c.fq ≠ 0) (h : ℕ) :
    mask c h = if (h : ℤ) ≤ Kc c then 1 else 0 := mask_one c hD hq h

/-- in every dimension the mask is the axis-separate low-pass at the rational cutoff -/
theorem C03_mask_iff (N fp fq : ℕ) (k : List ℤ) :
    dealiasMask N fp fq k = true ↔ ∀ kd ∈ k, |kd| * (fq : ℤ) ≤ (fp : ℤ) * ((N / 2 : ℕ) : ℤ) - (fq : ℤ) :=
  dealiasMask_iff N fp fq k

/-! ### the pseudo-spectral product is exact on band-limited fields -/

/-- circular convolution theorem (no band limitation) -/
theorem C03_circular_convolution (N : ℕ) (hN : 0 < N) (u v : Array ℂ) (h : ℤ) :
    DFT.dft N (Transform.tab N fun j => u.getD j 0 * v.getD j 0) h
      = 1 / (N : ℂ) * ∑ a ∈ Finset.range N, DFT.dft N u a * DFT.dft N v (h - a) :=
  dft_mul N hN u v h

/-- ALIAS-FREE: for band-limited `u`, `v` and `3K < N` the retained coefficients of the grid product are the
    linear convolution of the two band spectra -/
theorem C03_pseudospectral_exact (N : ℕ) (hN : 0 < N) (K : ℤ) (hK : 3 * K < N) (u v : Array ℂ)
    (hu : BandLimited N K u) (hv : BandLimited N K v) (h : ℤ) (hh : |h| ≤ K) :
    DFT.dft N (Transform.tab N fun j => u.getD j 0 * v.getD j 0) h
      = 1 / (N : ℂ) * ∑ m ∈ Finset.Icc (-K) K, trunc K (DFT.dft N u) m * trunc K (DFT.dft N v) (h - m) :=
  dft_mul_no_alias' N hN K hK u v hu hv h hh

theorem C03_pseudospectral_exact_cubic (N : ℕ) (hN : 0 < N) (K : ℤ) (hK : 4 * K < N) (u v w : Array ℂ)
    (hu : BandLimited N K u) (hv : BandLimited N K v) (hw : BandLimited N K w) (h : ℤ) (hh : |h| ≤ K) :
    DFT.dft N (Transform.tab N fun j => u.getD j 0 * v.getD j 0 * w.getD j 0) h
      = 1 / (N : ℂ) ^ 2 * ∑ a ∈ Finset.Icc (-K) K, ∑ b ∈ Finset.Icc (-K) K,
          trunc K (DFT.dft N u) a * trunc K (DFT.dft N v) b * trunc K (DFT.dft N w) (h - a - b) :=
  dft_mul3_no_alias' N hN K hK u v w hu hv hw h hh

/-- the linear convolution over the band IS the coefficient sequence of the product of the two
    trigonometric polynomials -/
theorem C03_convolution_is_product (K : ℤ) (U V : ℤ → ℂ) (z : ℂ) (hz : z ≠ 0) :
    (∑ a ∈ Finset.Icc (-K) K, U a * z ^ a) * ∑ b ∈ Finset.Icc (-K) K, V b * z ^ b
      = ∑ h ∈ Finset.Icc (-(2 * K)) (2 * K), (∑ m ∈ Finset.Icc (-K) K, trunc K U m * trunc K V (h - m)) * z ^ h :=
  sum_trunc_conv_eq_mul K U V z hz

/-- `ifft(mask·û)` is the band truncation `P_K` of the state -/
theorem C03_predealias (c : Cfg ℂ) (hD : c.D = 1) (hq : c.fq ≠ 0) (hN : 0 < c.N) (hK : 2 * Kc c < c.N)
    (x : Array ℂ) (hx : IsRealField c.N x) :
    BandLimited c.N (Kc c) (nifft c (Transform.rfftnM 1 c.N x)) ∧
    ∀ m : ℤ, |m| ≤ Kc c → DFT.dft c.N (nifft c (Transform.rfftnM 1 c.N x)) m = DFT.dft c.N x m :=
  ⟨nifft_bandLimited c hD hq hN _, dft_nifft_rfft c hD hq hN hK x hx⟩

/-! ### the built-in terms (1-D, one channel, every `N ≥ 1`, real state `x`, `û = rfft x`).
Hypotheses: any dealiasing fraction whose retained band satisfies `3·K < N` (quadratic terms; the documented 2/3 by
`C03_cutoff_quadratic`, and its float evaluation by `C03_effective_cutoff_bounds`) resp. `4·K < N` (cubic; 1/2). -/

/-- conservative convection `−b·½ ∂_x (P_K u)²`, projected -/
theorem C03_convection_conservative (c : Cfg ℂ) (hD : c.D = 1) (hq : c.fq ≠ 0) (hK : 3 * Kc c < (c.N : ℤ)) (hN : 0 < c.N)
    (scale : ℂ) (x : Array ℂ) (hx : IsRealField c.N x) (h : ℕ) (hh : h ≤ c.N / 2) :
    (mask c h = 1 →
        at2 (convection c 1 scale true true #[Transform.rfftnM 1 c.N x]) 0 h =
          -scale * (1 / 2) * deriv c 0 h *
            (1 / (c.N : ℂ) * ∑ m ∈ Finset.Icc (-Kc c) (Kc c),
              trunc (Kc c) (DFT.dft c.N x) m * trunc (Kc c) (DFT.dft c.N x) ((h : ℤ) - m))) ∧
      (mask c h = 0 → at2 (convection c 1 scale true true #[Transform.rfftnM 1 c.N x]) 0 h = 0) :=
  convection_one_alias_free_of_cutoff c hD hq hK hN scale x hx h hh

/-- non-conservative convection `−b (P_K u) ∂_x (P_K u)`, projected (both code paths) -/
theorem C03_convection_nonconservative (c : Cfg ℂ) (hD : c.D = 1) (hq : c.fq ≠ 0) (hK : 3 * Kc c < (c.N : ℤ)) (hN : 0 < c.N)
    (s : ℝ) (hs : c.s = (s : ℂ)) (scale : ℂ) (x : Array ℂ) (hx : IsRealField c.N x) (single : Bool) (h : ℕ)
    (hh : h ≤ c.N / 2) :
    (mask c h = 1 →
        at2 (convection c 1 scale single false #[Transform.rfftnM 1 c.N x]) 0 h =
          -scale * (1 / (c.N : ℂ) * ∑ m ∈ Finset.Icc (-Kc c) (Kc c),
            trunc (Kc c) (DFT.dft c.N x) m *
              (Complex.I * (c.s * (((h : ℤ) - m : ℤ) : ℂ)) * trunc (Kc c) (DFT.dft c.N x) ((h : ℤ) - m)))) ∧
      (mask c h = 0 → at2 (convection c 1 scale single false #[Transform.rfftnM 1 c.N x]) 0 h = 0) :=
  convection_nc_one_alias_free_of_cutoff c hD hq hK hN s hs scale x hx single h hh

/-- gradient norm `−b ½ (∂_x P_K u)²` (minus its mean when `zero_mode_fix`), projected -/
theorem C03_gradient_norm (c : Cfg ℂ) (hD : c.D = 1) (hq : c.fq ≠ 0) (hK : 3 * Kc c < (c.N : ℤ)) (hN : 0 < c.N)
    (s : ℝ) (hs : c.s = (s : ℂ)) (scale : ℂ) (zeroFix : Bool) (x : Array ℂ) (hx : IsRealField c.N x) (h : ℕ)
    (hh : h ≤ c.N / 2) :
    (mask c h = 1 →
        at2 (gradientNorm c 1 scale zeroFix #[Transform.rfftnM 1 c.N x]) 0 h =
          if zeroFix = true ∧ h = 0 then 0
          else -scale * (1 / 2) * (1 / (c.N : ℂ) * ∑ m ∈ Finset.Icc (-Kc c) (Kc c),
            Complex.I * (c.s * (m : ℂ)) * trunc (Kc c) (DFT.dft c.N x) m *
              (Complex.I * (c.s * (((h : ℤ) - m : ℤ) : ℂ)) * trunc (Kc c) (DFT.dft c.N x) ((h : ℤ) - m)))) ∧
      (mask c h = 0 → at2 (gradientNorm c 1 scale zeroFix #[Transform.rfftnM 1 c.N x]) 0 h = 0) :=
  gradientNorm_one_alias_free_of_cutoff c hD hq hK hN s hs scale zeroFix x hx h hh

/-- quadratic polynomial `c₀ + c₁ P_K u + c₂ (P_K u)²`, projected (2/3 rule) -/
theorem C03_polynomial_quadratic (c : Cfg ℂ) (hD : c.D = 1) (hq : c.fq ≠ 0) (hK : 3 * Kc c < (c.N : ℤ)) (hN : 0 < c.N)
    (c0 c1 c2 : ℂ) (x : Array ℂ) (hx : IsRealField c.N x) (h : ℕ) (hh : h ≤ c.N / 2) :
    (mask c h = 1 →
        at2 (polynomial c 1 [c0, c1, c2] #[Transform.rfftnM 1 c.N x]) 0 h =
          (c0 * if h = 0 then (c.N : ℂ) else 0) + c1 * DFT.dft c.N x h +
            c2 * (1 / (c.N : ℂ) * ∑ m ∈ Finset.Icc (-Kc c) (Kc c),
              trunc (Kc c) (DFT.dft c.N x) m * trunc (Kc c) (DFT.dft c.N x) ((h : ℤ) - m))) ∧
      (mask c h = 0 → at2 (polynomial c 1 [c0, c1, c2] #[Transform.rfftnM 1 c.N x]) 0 h = 0) :=
  polynomial_quadratic_alias_free_of_cutoff c hD hq hK hN c0 c1 c2 x hx h hh

/-- cubic polynomial `c₃ (P_K u)³`, projected (1/2 rule) -/
theorem C03_polynomial_cubic (c : Cfg ℂ) (hD : c.D = 1) (hq : c.fq ≠ 0) (hK : 4 * Kc c < (c.N : ℤ)) (hN : 0 < c.N)
    (c3 : ℂ) (x : Array ℂ) (hx : IsRealField c.N x) (h : ℕ) (hh : h ≤ c.N / 2) :
    (mask c h = 1 →
        at2 (polynomial c 1 [0, 0, 0, c3] #[Transform.rfftnM 1 c.N x]) 0 h =
          c3 * (1 / (c.N : ℂ) ^ 2 * ∑ a ∈ Finset.Icc (-Kc c) (Kc c), ∑ b ∈ Finset.Icc (-Kc c) (Kc c),
            trunc (Kc c) (DFT.dft c.N x) a * trunc (Kc c) (DFT.dft c.N x) b *
              trunc (Kc c) (DFT.dft c.N x) ((h : ℤ) - a - b))) ∧
      (mask c h = 0 → at2 (polynomial c 1 [0, 0, 0, c3] #[Transform.rfftnM 1 c.N x]) 0 h = 0) :=
  polynomial_cubic_alias_free_of_cutoff c hD hq hK hN c3 x hx h hh

/-- Cahn–Hilliard `ν c₃ Δ (P_K u)³`, projected (1/2 rule) -/
theorem C03_cahn_hilliard (c : Cfg ℂ) (hD : c.D = 1) (hq : c.fq ≠ 0) (hK : 4 * Kc c < (c.N : ℤ)) (hN : 0 < c.N)
    (scale : ℂ) (x : Array ℂ) (hx : IsRealField c.N x) (h : ℕ) (hh : h ≤ c.N / 2) :
    (mask c h = 1 →
        at2 (cahnHilliard c scale #[Transform.rfftnM 1 c.N x]) 0 h =
          laplace c 2 h * (1 / (c.N : ℂ) ^ 2 * ∑ a ∈ Finset.Icc (-Kc c) (Kc c), ∑ b ∈ Finset.Icc (-Kc c) (Kc c),
            trunc (Kc c) (DFT.dft c.N x) a * trunc (Kc c) (DFT.dft c.N x) b *
              trunc (Kc c) (DFT.dft c.N x) ((h : ℤ) - a - b)) * scale) ∧
      (mask c h = 0 → at2 (cahnHilliard c scale #[Transform.rfftnM 1 c.N x]) 0 h = 0) :=
  cahnHilliard_one_alias_free_of_cutoff c hD hq hK hN scale x hx h hh

/-! ### zero outside the retained band: every dimension, channel count, input -/

theorem C03_zero_outside_band (c : Cfg ℂ) (C : ℕ) (scale s0 s1 s2 : ℂ) (b1 b2 : Bool) (coeffs : List ℂ)
    (react : List ℂ → List ℂ) (uh : MC ℂ) (ch h : ℕ) (hm : mask c h = 0) :
    at2 (convection c C scale b1 b2 uh) ch h = 0 ∧ at2 (gradientNorm c C scale b1 uh) ch h = 0 ∧
    at2 (polynomial c C coeffs uh) ch h = 0 ∧ at2 (general c C s0 s1 s2 b1 uh) ch h = 0 ∧
    at2 (vorticity2d c scale none uh) ch h = 0 ∧ at2 (reaction c C react uh) ch h = 0 ∧
    at2 (cahnHilliard c scale uh) ch h = 0 :=
  ⟨convection_zero_off_band c C scale b1 b2 uh ch h hm, gradientNorm_zero_off_band c C scale b1 uh ch h hm,
    polynomial_zero_off_band c C coeffs uh ch h hm, general_zero_off_band c C s0 s1 s2 b1 uh ch h hm,
    vorticity2d_zero_off_band c scale uh ch h hm, reaction_zero_off_band c C react uh ch h hm,
    cahnHilliard_zero_off_band c scale uh ch h hm⟩

/-! ### regenerated cross product = documented formula -/

theorem C03_cross_product {R : Type} [CommRing R] (a1 a2 a3 b1 b2 b3 : R) :
    Gen.Misc.cross_product_3d (a1, a2, a3) (b1, b2, b3) = (a2 * b3 - a3 * b2, a3 * b1 - a1 * b3, a1 * b2 - a2 * b1) :=
  Cross.cross_formula a1 a2 a3 b1 b2 b3

/-! ### every dimension `D ≥ 1` (`Proofs/AliasND*.lean`): full spectrum `dftV`, box `|k_d| ≤ K` on every axis

`AliasND.linConv D N K F G k = N^{-D} Σ_{p ∈ box} F_p G_{k−p}` (truncated) is the LINEAR convolution: no wrapped-around
term.  `AliasND.dftV D N x k` is the D-dimensional DFT sum of the real state at the wavenumber vector `k`
(`rfftn_eq_dftV`: it is the stored coefficient at `k = kvec h`; Hermitian and `N`-periodic). -/

/-- n-D pseudo-spectral product of two band-limited real fields under `3K < N`: exactly the sum over `p + q = k` inside
    the box, for every retained stored mode -/
theorem C03_product_alias_free_nd (D N : ℕ) (hD : 0 < D) (hN : 0 < N) (K : ℤ) (hK : 3 * K < N) (f g : Array ℂ)
    (hf : AliasND.IsRealND D N f) (hg : AliasND.IsRealND D N g) (bf : AliasND.StoredBandLimited D N K f)
    (bg : AliasND.StoredBandLimited D N K g) (h : ℕ) (hh : h < numModes D N)
    (hk : ∀ d : Fin D, |AliasND.kvec D N h d| ≤ K) :
    (Transform.rfftnM D N (Transform.tab (N ^ D) fun j => f.getD j 0 * g.getD j 0)).getD h 0 =
      1 / ((N ^ D : ℕ) : ℂ) * ∑ pq ∈ AliasND.box D K ×ˢ AliasND.box D K with pq.1 + pq.2 = AliasND.kvec D N h,
        AliasND.dftV D N f pq.1 * AliasND.dftV D N g pq.2 :=
  AliasND.rfftn_mul_no_alias_pairs D N hD hN K hK f g hf hg bf bg h hh hk

/-- the model's `ifft(mask · û)` is the band truncation, every D: transforming back gives `mask · û` -/
theorem C03_truncation_nd (c : Cfg ℂ) (hD : 0 < c.D) (hq : c.fq ≠ 0) (hN : 0 < c.N) (hK : 2 * Kc c < (c.N : ℤ))
    (x : Array ℂ) (hx : AliasND.IsRealND c.D c.N x) (h : ℕ) (hh : h < numModes c.D c.N) :
    (Transform.rfftnM c.D c.N (nifft c (Transform.rfftnM c.D c.N x))).getD h 0
      = mask c h * (Transform.rfftnM c.D c.N x).getD h 0 := AliasND.rfftn_nifft_rfftn c hD hq hN hK x hx h hh

/-- polynomial term, degree ≤ 2 with the 2/3 rule, every D, every N -/
theorem C03_polynomial_quadratic_nd (c : Cfg ℂ) (hD : 0 < c.D) (hp : c.fp = 2) (hq : c.fq = 3) (hN : 0 < c.N)
    (c0 c1 c2 : ℂ) (x : Array ℂ) (hx : AliasND.IsRealND c.D c.N x) (h : ℕ) (hh : h < numModes c.D c.N) :
    (mask c h = 1 → at2 (polynomial c 1 [c0, c1, c2] #[Transform.rfftnM c.D c.N x]) 0 h =
        (c0 * if h = 0 then ((c.N ^ c.D : ℕ) : ℂ) else 0) + c1 * (Transform.rfftnM c.D c.N x).getD h 0 +
          c2 * AliasND.linConv c.D c.N (Kc c) (AliasND.dftV c.D c.N x) (AliasND.dftV c.D c.N x)
            (AliasND.kvec c.D c.N h)) ∧
      (mask c h = 0 → at2 (polynomial c 1 [c0, c1, c2] #[Transform.rfftnM c.D c.N x]) 0 h = 0) :=
  AliasND.polynomial_quadratic_alias_free_nd_two_thirds c hD hp hq hN c0 c1 c2 x hx h hh

/-- polynomial term, degree ≤ 3 under `4K < N` (the 1/2 rule), every D -/
theorem C03_polynomial_cubic_nd (c : Cfg ℂ) (hD : 0 < c.D) (hq : c.fq ≠ 0) (hK : 4 * Kc c < (c.N : ℤ)) (hN : 0 < c.N)
    (c0 c1 c2 c3 : ℂ) (x : Array ℂ) (hx : AliasND.IsRealND c.D c.N x) (h : ℕ) (hh : h < numModes c.D c.N) :
    (mask c h = 1 → at2 (polynomial c 1 [c0, c1, c2, c3] #[Transform.rfftnM c.D c.N x]) 0 h =
        (c0 * if h = 0 then ((c.N ^ c.D : ℕ) : ℂ) else 0) + c1 * (Transform.rfftnM c.D c.N x).getD h 0 +
          c2 * AliasND.linConv c.D c.N (Kc c) (AliasND.dftV c.D c.N x) (AliasND.dftV c.D c.N x)
            (AliasND.kvec c.D c.N h) +
          c3 * AliasND.linConv3 c.D c.N (Kc c) (AliasND.dftV c.D c.N x) (AliasND.dftV c.D c.N x)
            (AliasND.dftV c.D c.N x) (AliasND.kvec c.D c.N h)) ∧
      (mask c h = 0 → at2 (polynomial c 1 [c0, c1, c2, c3] #[Transform.rfftnM c.D c.N x]) 0 h = 0) :=
  AliasND.polynomial_cubic_alias_free_nd c hD hq hK hN c0 c1 c2 c3 x hx h hh

/-- conservative multi-channel convection `½ ∂_j(u_i u_j)` (Burgers, KdV, KS-conservative in D dimensions), any channel
    count, every D: the alias-free convolution form on retained modes, 0 on dropped modes -/
theorem C03_convection_conservative_nd (c : Cfg ℂ) (hD : 0 < c.D) (hq : c.fq ≠ 0) (hK : 3 * Kc c < (c.N : ℤ))
    (hN : 0 < c.N) (C : ℕ) (scale : ℂ) (uh : MC ℂ) (xs : ℕ → Array ℂ)
    (hx : ∀ ch < C, AliasND.IsRealND c.D c.N (xs ch))
    (hu : ∀ ch < C, uh.getD ch #[] = Transform.rfftnM c.D c.N (xs ch)) (i : ℕ) (hi : i < C) (h : ℕ)
    (hh : h < numModes c.D c.N) :
    (mask c h = 1 → at2 (convection c C scale false true uh) i h =
        -scale * (1 / 2 * ∑ j ∈ Finset.range C, deriv c j h *
          AliasND.linConv c.D c.N (Kc c) (AliasND.dftV c.D c.N (xs j)) (AliasND.dftV c.D c.N (xs i))
            (AliasND.kvec c.D c.N h))) ∧
      (mask c h = 0 → at2 (convection c C scale false true uh) i h = 0) :=
  AliasND.convection_multi_conservative_alias_free_nd c hD hq hK hN C scale uh xs hx hu i hi h hh

/-- single-channel conservative convection and the Cahn–Hilliard cubic term, every D -/
theorem C03_single_channel_and_cahn_hilliard_nd (c : Cfg ℂ) (hD : 0 < c.D) (hq : c.fq ≠ 0) (hN : 0 < c.N)
    (scale : ℂ) (x : Array ℂ) (hx : AliasND.IsRealND c.D c.N x) (h : ℕ) (hh : h < numModes c.D c.N) :
    (3 * Kc c < (c.N : ℤ) → mask c h = 1 →
      at2 (convection c 1 scale true true #[Transform.rfftnM c.D c.N x]) 0 h =
        -scale * ((1 / 2 * ∑ d ∈ Finset.range c.D, deriv c d h) *
          AliasND.linConv c.D c.N (Kc c) (AliasND.dftV c.D c.N x) (AliasND.dftV c.D c.N x)
            (AliasND.kvec c.D c.N h))) ∧
    (4 * Kc c < (c.N : ℤ) → mask c h = 1 →
      at2 (cahnHilliard c scale #[Transform.rfftnM c.D c.N x]) 0 h =
        laplace c 2 h * AliasND.linConv3 c.D c.N (Kc c) (AliasND.dftV c.D c.N x) (AliasND.dftV c.D c.N x)
          (AliasND.dftV c.D c.N x) (AliasND.kvec c.D c.N h) * scale) := by
  refine ⟨fun hK hm => ?_, fun hK hm => ?_⟩
  · have := AliasND.convection_single_conservative_alias_free_nd c hD hq hK hN 1 scale
      #[Transform.rfftnM c.D c.N x] (fun _ => x) (fun _ _ => hx) (fun ch hch => by
        have : ch = 0 := by omega
        subst this; rfl) 0 (by omega) h hh
    exact this.1 hm
  · exact (AliasND.cahnHilliard_alias_free_nd c hD hq hK hN scale x hx h hh).1 hm

/-! ### the regenerated cut-off arithmetic -/

/-- the cut-off expression regenerated from `BaseNonlinearFun.__init__` is `frac·(N//2) − 1` … -/
theorem C03_generated_cutoff (N : ℕ) (f : ℚ) :
    Gen.Misc.dealias_cutoff N f = f * ((N / 2 : ℕ) : ℚ) - 1 := by
  simp [Gen.Misc.dealias_cutoff, lit]
  left
  show ((((N : ℤ) / 2 : ℤ)) : ℚ) = ((N / 2 : ℕ) : ℚ)
  have : ((N : ℤ) / 2) = ((N / 2 : ℕ) : ℤ) := by norm_cast
  rw [this]; norm_cast

/-- … and the retained band of the model is its integer part (rational evaluation; the binary64 evaluation of the
    same regenerated expression is what the check drives the model with, see `C03_effective_cutoff`) -/
theorem C03_generated_cutoff_floor (c : Cfg ℂ) (hq : c.fq ≠ 0) :
    ⌊Gen.Misc.dealias_cutoff c.N ((c.fp : ℚ) / (c.fq : ℚ))⌋ = Kc c := by
  rw [C03_generated_cutoff]
  have hq' : (c.fq : ℚ) ≠ 0 := by exact_mod_cast hq
  have h1 : (c.fp : ℚ) / (c.fq : ℚ) * ((c.N / 2 : ℕ) : ℚ) - 1
      = (((c.fp : ℤ) * ((c.N / 2 : ℕ) : ℤ) - (c.fq : ℤ) : ℤ) : ℚ) / ((c.fq : ℕ) : ℚ) := by
    rw [Int.cast_sub, Int.cast_mul, Int.cast_natCast, Int.cast_natCast, Int.cast_natCast]
    field_simp
  rw [h1, Rat.floor_intCast_div_natCast]
  rfl




example : ∃ c : Cfg ℂ, c.D = 1 ∧ c.fp = 2 ∧ c.fq = 3 ∧ 0 < c.N ∧ mask c 3 = 1 :=
  ⟨{ D := 1, N := 12, s := 1, fp := 2, fq := 3 }, rfl, rfl, rfl, by decide, by
    rw [mask_one _ rfl (by decide)]; simp [Kc]⟩

/-! ### the remaining terms in every dimension (`Proofs/AliasND2*.lean`)

`AliasND.dspec c d x p = (i s p_d)·x̂_p` is the spectrum of `∂_d x`; `uspec/vspec` those of the velocity
`(∂₁ψ, −∂₀ψ)`, `ψ̂ = Δ̂⁻¹ ω̂` (guarded at the mean mode). Real scale `s = 2π/L`. -/

/-- gradient norm `½|∇u|²`, every D, both values of the zero-mode fix -/
theorem C03_gradient_norm_nd (c : Cfg ℂ) (hD : 0 < c.D) (hq : c.fq ≠ 0) (hK : 3 * Kc c < (c.N : ℤ)) (hN : 0 < c.N)
    (s : ℝ) (hs : c.s = (s : ℂ)) (scale : ℂ) (zeroFix : Bool) (x : Array ℂ) (hx : AliasND.IsRealND c.D c.N x) (h : ℕ)
    (hh : h < numModes c.D c.N) :
    (mask c h = 1 → at2 (gradientNorm c 1 scale zeroFix #[Transform.rfftnM c.D c.N x]) 0 h =
        if zeroFix = true ∧ h = 0 then 0 else
          -scale * (1 / 2) * ∑ d ∈ Finset.range c.D,
            AliasND.linConv c.D c.N (Kc c) (AliasND.dspec c d x) (AliasND.dspec c d x) (AliasND.kvec c.D c.N h)) ∧
      (mask c h = 0 → at2 (gradientNorm c 1 scale zeroFix #[Transform.rfftnM c.D c.N x]) 0 h = 0) :=
  AliasND.gradientNorm_alias_free_nd c hD hq hK hN s hs scale zeroFix x hx h hh

/-- non-conservative multi-channel convection `(u·∇)u`, every D -/
theorem C03_convection_nonconservative_nd (c : Cfg ℂ) (hD : 0 < c.D) (hq : c.fq ≠ 0) (hK : 3 * Kc c < (c.N : ℤ))
    (hN : 0 < c.N) (s : ℝ) (hs : c.s = (s : ℂ)) (C : ℕ) (hC : C ≤ c.D) (scale : ℂ) (uh : MC ℂ) (xs : ℕ → Array ℂ)
    (hx : ∀ ch < C, AliasND.IsRealND c.D c.N (xs ch))
    (hu : ∀ ch < C, uh.getD ch #[] = Transform.rfftnM c.D c.N (xs ch)) (i : ℕ) (hi : i < C) (h : ℕ)
    (hh : h < numModes c.D c.N) :
    (mask c h = 1 → at2 (convection c C scale false false uh) i h =
        -scale * ∑ j ∈ Finset.range C,
          AliasND.linConv c.D c.N (Kc c) (AliasND.dftV c.D c.N (xs j)) (AliasND.dspec c j (xs i))
            (AliasND.kvec c.D c.N h)) ∧
      (mask c h = 0 → at2 (convection c C scale false false uh) i h = 0) :=
  AliasND.convection_multi_nc_alias_free_nd c hD hq hK hN s hs C hC scale uh xs hx hu i hi h hh

/-- 2-D vorticity convection `−b (u·∇)ω`, `u = ∇^⊥ Δ⁻¹ ω` -/
theorem C03_vorticity_2d (c : Cfg ℂ) (hD : c.D = 2) (hq : c.fq ≠ 0) (hK : 3 * Kc c < (c.N : ℤ)) (hN : 0 < c.N) (s : ℝ)
    (hs : c.s = (s : ℂ)) (scale : ℂ) (x : Array ℂ) (hx : AliasND.IsRealND c.D c.N x) (h : ℕ)
    (hh : h < numModes c.D c.N) :
    (mask c h = 1 → at2 (vorticity2d c scale none #[Transform.rfftnM c.D c.N x]) 0 h =
        -scale * (AliasND.linConv c.D c.N (Kc c) (AliasND.uspec c x) (AliasND.dspec c 0 x) (AliasND.kvec c.D c.N h) +
          AliasND.linConv c.D c.N (Kc c) (AliasND.vspec c x) (AliasND.dspec c 1 x) (AliasND.kvec c.D c.N h))) ∧
      (mask c h = 0 → at2 (vorticity2d c scale none #[Transform.rfftnM c.D c.N x]) 0 h = 0) :=
  AliasND.vorticity2d_alias_free c hD hq hK hN s hs scale x hx h hh

/-- Gray–Scott reaction (cubic, 1/2 rule), every D, both channels -/
theorem C03_gray_scott_nd (c : Cfg ℂ) (hD : 0 < c.D) (hq : c.fq ≠ 0) (hK : 4 * Kc c < (c.N : ℤ)) (hN : 0 < c.N)
    (feed kill : ℂ) (xa xb : Array ℂ) (hxa : AliasND.IsRealND c.D c.N xa) (hxb : AliasND.IsRealND c.D c.N xb) (h : ℕ)
    (hh : h < numModes c.D c.N) (hm : mask c h = 1) :
    at2 (reaction c 2 (grayScottReact feed kill) #[Transform.rfftnM c.D c.N xa, Transform.rfftnM c.D c.N xb]) 0 h =
        feed * ((if h = 0 then ((c.N ^ c.D : ℕ) : ℂ) else 0) - (Transform.rfftnM c.D c.N xa).getD h 0) -
          AliasND.linConv3 c.D c.N (Kc c) (AliasND.dftV c.D c.N xa) (AliasND.dftV c.D c.N xb) (AliasND.dftV c.D c.N xb)
            (AliasND.kvec c.D c.N h) ∧
    at2 (reaction c 2 (grayScottReact feed kill) #[Transform.rfftnM c.D c.N xa, Transform.rfftnM c.D c.N xb]) 1 h =
        -(feed + kill) * (Transform.rfftnM c.D c.N xb).getD h 0 +
          AliasND.linConv3 c.D c.N (Kc c) (AliasND.dftV c.D c.N xa) (AliasND.dftV c.D c.N xb) (AliasND.dftV c.D c.N xb)
            (AliasND.kvec c.D c.N h) :=
  (AliasND.grayScott_alias_free_nd c hD hq hK hN feed kill xa xb hxa hxb h hh).1 hm

/-! ### the last three terms (`Proofs/AliasND3*.lean`): with these EVERY nonlinear function of the model has its
alias-free statement in every dimension it is defined in -/

/-- the 3-D rotational term `P(u × ω)`, `ω = ∇ × u` (both cross products are the REGENERATED `cross_product_3d`):
    on retained modes the Leray projector symbol applied to the alias-free spectrum of
    `(u×ω)_e = Σ_j u_j ∂_e u_j − u_j ∂_j u_e`, zero on dropped modes -/
theorem C03_rotational_3d (c : Cfg ℂ) (hD : c.D = 3) (hq : c.fq ≠ 0) (hK : 3 * Kc c < (c.N : ℤ)) (hN : 0 < c.N) (s : ℝ)
    (hs : c.s = (s : ℂ)) (uh : MC ℂ) (xs : ℕ → Array ℂ) (hx : ∀ ch < 3, AliasND.IsRealND c.D c.N (xs ch))
    (hu : ∀ ch < 3, uh.getD ch #[] = Transform.rfftnM c.D c.N (xs ch)) (i : ℕ) (hi : i < 3) (h : ℕ)
    (hh : h < numModes c.D c.N) :
    (mask c h = 1 → at2 (projected3d c none uh) i h =
        ∑ e ∈ Finset.range 3, AliasND.lerayPsym c i e (AliasND.kvec c.D c.N h) * ∑ j ∈ Finset.range 3,
          (AliasND.linConv c.D c.N (Kc c) (AliasND.dftV c.D c.N (xs j)) (AliasND.dspec c e (xs j)) (AliasND.kvec c.D c.N h)
            - AliasND.linConv c.D c.N (Kc c) (AliasND.dftV c.D c.N (xs j)) (AliasND.dspec c j (xs e))
                (AliasND.kvec c.D c.N h))) ∧
      (mask c h = 0 → at2 (projected3d c none uh) i h = 0) :=
  AliasND.projected3d_alias_free_explicit c hD hq hK hN s hs uh xs hx hu i hi h hh

/-- the general nonlinear term `s₀u² + s₁·½∂(u²) + s₂·½|∇u|²` (model sign conventions), every D -/
theorem C03_general_nd (c : Cfg ℂ) (hD : 0 < c.D) (hq : c.fq ≠ 0) (hK : 3 * Kc c < (c.N : ℤ)) (hN : 0 < c.N) (s : ℝ)
    (hs : c.s = (s : ℂ)) (s0 s1 s2 : ℂ) (zeroFix : Bool) (x : Array ℂ) (hx : AliasND.IsRealND c.D c.N x) (h : ℕ)
    (hh : h < numModes c.D c.N) :
    (mask c h = 1 → at2 (general c 1 s0 s1 s2 zeroFix #[Transform.rfftnM c.D c.N x]) 0 h =
        s0 * AliasND.linConv c.D c.N (Kc c) (AliasND.dftV c.D c.N x) (AliasND.dftV c.D c.N x) (AliasND.kvec c.D c.N h)
        + s1 * ((1 / 2 * ∑ d ∈ Finset.range c.D, deriv c d h) *
            AliasND.linConv c.D c.N (Kc c) (AliasND.dftV c.D c.N x) (AliasND.dftV c.D c.N x) (AliasND.kvec c.D c.N h))
        + if zeroFix = true ∧ h = 0 then 0 else
            s2 * (1 / 2) * ∑ d ∈ Finset.range c.D,
              AliasND.linConv c.D c.N (Kc c) (AliasND.dspec c d x) (AliasND.dspec c d x) (AliasND.kvec c.D c.N h)) ∧
      (mask c h = 0 → at2 (general c 1 s0 s1 s2 zeroFix #[Transform.rfftnM c.D c.N x]) 0 h = 0) :=
  AliasND.general_alias_free_nd c hD hq hK hN s hs s0 s1 s2 zeroFix x hx h hh

/-- Belousov–Zhabotinsky (quadratic: 2/3 rule), every D, three channels -/
theorem C03_belousov_zhabotinsky_nd (c : Cfg ℂ) (hD : 0 < c.D) (hq : c.fq ≠ 0) (hK : 3 * Kc c < (c.N : ℤ)) (hN : 0 < c.N)
    (xa xb xd : Array ℂ) (ha : AliasND.IsRealND c.D c.N xa) (hb : AliasND.IsRealND c.D c.N xb)
    (hd : AliasND.IsRealND c.D c.N xd) (h : ℕ) (hh : h < numModes c.D c.N) (hm : mask c h = 1) :
    at2 (reaction c 3 bzReact #[Transform.rfftnM c.D c.N xa, Transform.rfftnM c.D c.N xb, Transform.rfftnM c.D c.N xd]) 2 h
      = (Transform.rfftnM c.D c.N xa).getD h 0 - (Transform.rfftnM c.D c.N xd).getD h 0 ∧
    at2 (reaction c 3 bzReact #[Transform.rfftnM c.D c.N xa, Transform.rfftnM c.D c.N xb, Transform.rfftnM c.D c.N xd]) 1 h
      = (Transform.rfftnM c.D c.N xd).getD h 0 - (Transform.rfftnM c.D c.N xb).getD h 0
        - AliasND.linConv c.D c.N (Kc c) (AliasND.dftV c.D c.N xa) (AliasND.dftV c.D c.N xb) (AliasND.kvec c.D c.N h) := by
  have := (AliasND.bz_alias_free_nd c hD hq hK hN xa xb xd ha hb hd h hh).1 hm
  exact ⟨this.2.2, this.2.1⟩

/-! ### the `__call__` of EVERY nonlinear-function class, REGENERATED from its source on every run
(`Gen.NonlinFuns.*`, found by walking `exponax/**` for subclasses of `BaseNonlinearFun`), equals the model function all
the theorems above speak about — as whole multi-channel arrays.  The hypotheses are the source's own shape guards. -/
open Exponax.Gen.NonlinFuns in
theorem C03_generated_nonlinear_functions (c : Cfg ℂ) (C : ℕ) (scale s0 s1 s2 feed kill : ℂ) (coeffs : List ℂ)
    (single conservative zeroFix : Bool) (uh : MC ℂ) :
    PolynomialNonlinearFun_call c C coeffs uh = polynomial c C coeffs uh ∧
    ((if single = true then conservative = false → C = 1 else C = c.D) →
      ConvectionNonlinearFun_call c C scale single conservative uh = convection c C scale single conservative uh) ∧
    GradientNormNonlinearFun_call c C zeroFix scale uh = gradientNorm c C scale zeroFix uh ∧
    GeneralNonlinearFun_call c C (s0, s1, s2) zeroFix uh = general c C s0 s1 s2 zeroFix uh ∧
    (C = 2 → GrayScottNonlinearFun_call c C feed kill uh = reaction c C (grayScottReact feed kill) uh) ∧
    (C = 3 → BelousovZhabotinskyNonlinearFun_call c C uh = reaction c C bzReact uh) ∧
    (0 < C → CahnHilliardNonlinearFun_call c C scale uh = cahnHilliard c scale uh) ∧
    Leray_call c 2 uh = leray c uh ∧
    VorticityConvection2d_call c scale uh = vorticity2d c scale none uh ∧
    (c.D = 3 → ProjectedConvection3d_call c uh = projected3d c none uh) :=
  ⟨NonlinFunsEq.PolynomialNonlinearFun_call_eq c C coeffs uh,
   fun h => NonlinFunsEq.ConvectionNonlinearFun_call_eq c C scale single conservative uh h,
   NonlinFunsEq.GradientNormNonlinearFun_call_eq c C scale zeroFix uh,
   NonlinFunsEq.GeneralNonlinearFun_call_eq c C s0 s1 s2 zeroFix uh,
   fun h => NonlinFunsEq.GrayScottNonlinearFun_call_eq c C h feed kill uh,
   fun h => NonlinFunsEq.BelousovZhabotinskyNonlinearFun_call_eq c C h uh,
   fun h => NonlinFunsEq.CahnHilliardNonlinearFun_call_eq c C h scale uh,
   NonlinFunsEq.Leray_call_eq c uh, NonlinFunsEq.VorticityConvection2d_call_eq c scale uh,
   fun h => NonlinFunsEq.ProjectedConvection3d_call_eq c h uh⟩

/-- the Kolmogorov-forced variants (real scale `2π/L`; forcing mode `m ≥ 1` in 3-D) -/
theorem C03_generated_forced_functions (c : Cfg ℂ) (s : ℝ) (hs : c.s = (s : ℂ)) (scale gam : ℂ) (m : ℕ) (uh : MC ℂ) :
    Gen.NonlinFuns.VorticityConvection2dKolmogorov_call c scale m gam uh = vorticity2d c scale (some (m, gam)) uh ∧
    (c.D = 3 → 0 < m → Gen.NonlinFuns.ProjectedConvection3dKolmogorov_call c m gam uh = projected3d c (some (m, gam)) uh) :=
  ⟨NonlinFunsEq.VorticityConvection2dKolmogorov_call_eq c s hs scale m gam uh,
   fun hD hm => NonlinFunsEq.ProjectedConvection3dKolmogorov_call_eq c hD m hm gam uh⟩

/-- the class's own `fft` / `ifft` (mask included) are the model's `nfft` / `nifft` per channel; the class list is pinned -/
theorem C03_generated_transforms (c : Cfg ℂ) (C : ℕ) (u uh : MC ℂ) :
    Gen.NonlinFuns.BaseNonlinearFun_fft c C u = tabC C (fun i => nfft c (u.getD i #[])) ∧
    Gen.NonlinFuns.BaseNonlinearFun_ifft c C uh = tabC C (fun i => nifft c (uh.getD i #[])) ∧
    Gen.NonlinFuns.generated_classes.length = 13 := by
  refine ⟨NonlinFunsEq.BaseNonlinearFun_fft_eq c C u, NonlinFunsEq.BaseNonlinearFun_ifft_eq c C uh, ?_⟩
  rw [NonlinFunsEq.generated_classes_pinned]; rfl


/-! ### channels, every dimension, and the DOCUMENTED CONTINUOUS OPERATOR (library `Proofs/AliasMulti*.lean`): polynomial,
gradient-norm and general terms act channel-wise (whole-array equalities), so the alias-free statements hold per channel for any
C; single-channel non-conservative convection in every D; the linear convolution of band-limited coefficient families is the
coefficient family of the POINTWISE PRODUCT of the trigonometric polynomials in every D, and sampling on N > 3K (4K) points reads
it exactly; hence on the retained modes each term is the band truncation of the spectrum of the documented continuous operator
(½∂(u²), ½|∇u|², u Σ∂_d u, u³ — honest partial derivatives) applied to the continuous band-truncated field `PKfield` -/

open Exponax.AliasMulti Exponax.AliasND Exponax.Nonlin in
theorem C03_polynomial_is_channelwise :
    ∀ (c : Nonlin.Cfg ℂ) (C : ℕ) (coeffs : List ℂ) (uh : Nonlin.MC ℂ),
      ∀ ch < C,
        Array.getD (Nonlin.polynomial c C coeffs uh) ch #[] =
          Array.getD (Nonlin.polynomial c 1 coeffs #[Array.getD uh ch #[]]) 0 #[] :=
  @Exponax.AliasMulti.polynomial_channel

open Exponax.AliasMulti Exponax.AliasND Exponax.Nonlin in
theorem C03_gradient_norm_is_channelwise :
    ∀ (c : Nonlin.Cfg ℂ) (C : ℕ) (scale : ℂ) (zeroFix : Bool) (uh : Nonlin.MC ℂ),
      ∀ ch < C,
        Array.getD (Nonlin.gradientNorm c C scale zeroFix uh) ch #[] =
          Array.getD (Nonlin.gradientNorm c 1 scale zeroFix #[Array.getD uh ch #[]]) 0 #[] :=
  @Exponax.AliasMulti.gradientNorm_channel

open Exponax.AliasMulti Exponax.AliasND Exponax.Nonlin in
theorem C03_general_is_channelwise :
    ∀ (c : Nonlin.Cfg ℂ) (C : ℕ) (s0 s1 s2 : ℂ) (zeroFix : Bool) (uh : Nonlin.MC ℂ),
      ∀ ch < C,
        Array.getD (Nonlin.general c C s0 s1 s2 zeroFix uh) ch #[] =
          Array.getD (Nonlin.general c 1 s0 s1 s2 zeroFix #[Array.getD uh ch #[]]) 0 #[] :=
  @Exponax.AliasMulti.general_channel

open Exponax.AliasMulti Exponax.AliasND Exponax.Nonlin in
theorem C03_polynomial_quadratic_nd_channels :
    ∀ (c : Nonlin.Cfg ℂ),
      0 < c.D →
        c.fq ≠ 0 →
          3 * Alias.Kc c < ↑c.N →
            0 < c.N →
              ∀ (C : ℕ) (c0 c1 c2 : ℂ) (uh : Nonlin.MC ℂ) (xs : ℕ → Array ℂ),
                (∀ ch < C, AliasND.IsRealND c.D c.N (xs ch)) →
                  (∀ ch < C, Array.getD uh ch #[] = Transform.rfftnM c.D c.N (xs ch)) →
                    ∀ ch < C,
                      ∀ h < Layout.numModes c.D c.N,
                        (Nonlin.mask c h = 1 →
                            Nonlin.at2 (Nonlin.polynomial c C [c0, c1, c2] uh) ch h =
                              (c0 * if h = 0 then ↑(c.N ^ c.D) else 0) + c1 * (Transform.rfftnM c.D c.N (xs ch)).getD h 0 +
                                c2 *
                                  AliasND.linConv c.D c.N (Alias.Kc c) (AliasND.dftV c.D c.N (xs ch))
                                    (AliasND.dftV c.D c.N (xs ch)) (AliasND.kvec c.D c.N h)) ∧
                          (Nonlin.mask c h = 0 → Nonlin.at2 (Nonlin.polynomial c C [c0, c1, c2] uh) ch h = 0) :=
  @Exponax.AliasMulti.polynomial_quadratic_alias_free_nd_channels

open Exponax.AliasMulti Exponax.AliasND Exponax.Nonlin in
theorem C03_polynomial_cubic_nd_channels :
    ∀ (c : Nonlin.Cfg ℂ),
      0 < c.D →
        c.fq ≠ 0 →
          4 * Alias.Kc c < ↑c.N →
            0 < c.N →
              ∀ (C : ℕ) (c0 c1 c2 c3 : ℂ) (uh : Nonlin.MC ℂ) (xs : ℕ → Array ℂ),
                (∀ ch < C, AliasND.IsRealND c.D c.N (xs ch)) →
                  (∀ ch < C, Array.getD uh ch #[] = Transform.rfftnM c.D c.N (xs ch)) →
                    ∀ ch < C,
                      ∀ h < Layout.numModes c.D c.N,
                        (Nonlin.mask c h = 1 →
                            Nonlin.at2 (Nonlin.polynomial c C [c0, c1, c2, c3] uh) ch h =
                              (c0 * if h = 0 then ↑(c.N ^ c.D) else 0) + c1 * (Transform.rfftnM c.D c.N (xs ch)).getD h 0 +
                                  c2 *
                                    AliasND.linConv c.D c.N (Alias.Kc c) (AliasND.dftV c.D c.N (xs ch))
                                      (AliasND.dftV c.D c.N (xs ch)) (AliasND.kvec c.D c.N h) +
                                c3 *
                                  AliasND.linConv3 c.D c.N (Alias.Kc c) (AliasND.dftV c.D c.N (xs ch))
                                    (AliasND.dftV c.D c.N (xs ch)) (AliasND.dftV c.D c.N (xs ch))
                                    (AliasND.kvec c.D c.N h)) ∧
                          (Nonlin.mask c h = 0 → Nonlin.at2 (Nonlin.polynomial c C [c0, c1, c2, c3] uh) ch h = 0) :=
  @Exponax.AliasMulti.polynomial_cubic_alias_free_nd_channels

open Exponax.AliasMulti Exponax.AliasND Exponax.Nonlin in
theorem C03_gradient_norm_nd_channels :
    ∀ (c : Nonlin.Cfg ℂ),
      0 < c.D →
        c.fq ≠ 0 →
          3 * Alias.Kc c < ↑c.N →
            0 < c.N →
              ∀ (s : ℝ),
                c.s = ↑s →
                  ∀ (C : ℕ) (scale : ℂ) (zeroFix : Bool) (uh : Nonlin.MC ℂ) (xs : ℕ → Array ℂ),
                    (∀ ch < C, AliasND.IsRealND c.D c.N (xs ch)) →
                      (∀ ch < C, Array.getD uh ch #[] = Transform.rfftnM c.D c.N (xs ch)) →
                        ∀ ch < C,
                          ∀ h < Layout.numModes c.D c.N,
                            (Nonlin.mask c h = 1 →
                                Nonlin.at2 (Nonlin.gradientNorm c C scale zeroFix uh) ch h =
                                  if zeroFix = true ∧ h = 0 then 0
                                  else
                                    -scale * (1 / 2) *
                                      ∑ d ∈ Finset.range c.D,
                                        AliasND.linConv c.D c.N (Alias.Kc c) (AliasND.dspec c d (xs ch))
                                          (AliasND.dspec c d (xs ch)) (AliasND.kvec c.D c.N h)) ∧
                              (Nonlin.mask c h = 0 → Nonlin.at2 (Nonlin.gradientNorm c C scale zeroFix uh) ch h = 0) :=
  @Exponax.AliasMulti.gradientNorm_alias_free_nd_channels

open Exponax.AliasMulti Exponax.AliasND Exponax.Nonlin in
theorem C03_general_nd_channels :
    ∀ (c : Nonlin.Cfg ℂ),
      0 < c.D →
        c.fq ≠ 0 →
          3 * Alias.Kc c < ↑c.N →
            0 < c.N →
              ∀ (s : ℝ),
                c.s = ↑s →
                  ∀ (C : ℕ) (s0 s1 s2 : ℂ) (zeroFix : Bool) (uh : Nonlin.MC ℂ) (xs : ℕ → Array ℂ),
                    (∀ ch < C, AliasND.IsRealND c.D c.N (xs ch)) →
                      (∀ ch < C, Array.getD uh ch #[] = Transform.rfftnM c.D c.N (xs ch)) →
                        ∀ ch < C,
                          ∀ h < Layout.numModes c.D c.N,
                            (Nonlin.mask c h = 1 →
                                Nonlin.at2 (Nonlin.general c C s0 s1 s2 zeroFix uh) ch h =
                                  s0 *
                                        AliasND.linConv c.D c.N (Alias.Kc c) (AliasND.dftV c.D c.N (xs ch))
                                          (AliasND.dftV c.D c.N (xs ch)) (AliasND.kvec c.D c.N h) +
                                      s1 *
                                        ((1 / 2 * ∑ d ∈ Finset.range c.D, Nonlin.deriv c d h) *
                                          AliasND.linConv c.D c.N (Alias.Kc c) (AliasND.dftV c.D c.N (xs ch))
                                            (AliasND.dftV c.D c.N (xs ch)) (AliasND.kvec c.D c.N h)) +
                                    if zeroFix = true ∧ h = 0 then 0
                                    else
                                      s2 * (1 / 2) *
                                        ∑ d ∈ Finset.range c.D,
                                          AliasND.linConv c.D c.N (Alias.Kc c) (AliasND.dspec c d (xs ch))
                                            (AliasND.dspec c d (xs ch)) (AliasND.kvec c.D c.N h)) ∧
                              (Nonlin.mask c h = 0 → Nonlin.at2 (Nonlin.general c C s0 s1 s2 zeroFix uh) ch h = 0) :=
  @Exponax.AliasMulti.general_alias_free_nd_channels

open Exponax.AliasMulti Exponax.AliasND Exponax.Nonlin in
theorem C03_convection_single_nonconservative_nd :
    ∀ (c : Nonlin.Cfg ℂ),
      0 < c.D →
        c.fq ≠ 0 →
          3 * Alias.Kc c < ↑c.N →
            0 < c.N →
              ∀ (s : ℝ),
                c.s = ↑s →
                  ∀ (scale : ℂ) (x : Array ℂ),
                    AliasND.IsRealND c.D c.N x →
                      ∀ h < Layout.numModes c.D c.N,
                        (Nonlin.mask c h = 1 →
                            Nonlin.at2 (Nonlin.convection c 1 scale true false #[Transform.rfftnM c.D c.N x]) 0 h =
                              -scale *
                                ∑ d ∈ Finset.range c.D,
                                  AliasND.linConv c.D c.N (Alias.Kc c) (AliasND.dftV c.D c.N x) (AliasND.dspec c d x)
                                    (AliasND.kvec c.D c.N h)) ∧
                          (Nonlin.mask c h = 0 →
                            Nonlin.at2 (Nonlin.convection c 1 scale true false #[Transform.rfftnM c.D c.N x]) 0 h = 0) :=
  @Exponax.AliasMulti.convection_single_nc_nd

open Exponax.AliasMulti Exponax.AliasND Exponax.Nonlin in
theorem C03_convolution_is_product_nd :
    ∀ {D : ℕ} (s : ℝ) (K L : ℤ) (F G : (Fin D → ℤ) → ℂ) (ξ : Fin D → ℝ),
      tpoly s K F ξ * tpoly s L G ξ = tpoly s (K + L) (conv K L F G) ξ :=
  @Exponax.AliasMulti.tpoly_mul

open Exponax.AliasMulti Exponax.AliasND Exponax.Nonlin in
theorem C03_sampled_product_spectrum_nd :
    ∀ (D N : ℕ),
      0 < N →
        ∀ (K : ℤ),
          3 * K < ↑N →
            ∀ (F G : (Fin D → ℤ) → ℂ),
              ∀ h < Layout.numModes D N,
                (∀ (d : Fin D), |AliasND.kvec D N h d| ≤ K) →
                  (Transform.rfftnM D N
                          (Transform.tab (N ^ D) fun j ↦ (sampleTP D N K F).getD j 0 * (sampleTP D N K G).getD j 0)).getD
                      h 0 =
                    ↑(N ^ D) * conv K K F G (AliasND.kvec D N h) :=
  @Exponax.AliasMulti.rfftn_sampleTP_mul

open Exponax.AliasMulti Exponax.AliasND Exponax.Nonlin in
theorem C03_sampled_cubic_product_spectrum_nd :
    ∀ (D N : ℕ),
      0 < N →
        ∀ (K : ℤ),
          4 * K < ↑N →
            ∀ (F G H : (Fin D → ℤ) → ℂ),
              ∀ h < Layout.numModes D N,
                (∀ (d : Fin D), |AliasND.kvec D N h d| ≤ K) →
                  (Transform.rfftnM D N
                          (Transform.tab (N ^ D) fun j ↦
                            (sampleTP D N K F).getD j 0 * (sampleTP D N K G).getD j 0 * (sampleTP D N K H).getD j 0)).getD
                      h 0 =
                    ↑(N ^ D) * conv3 K F G H (AliasND.kvec D N h) :=
  @Exponax.AliasMulti.rfftn_sampleTP_mul3

open Exponax.AliasMulti Exponax.AliasND Exponax.Nonlin in
theorem C03_dealiased_state_is_band_truncated_field :
    ∀ (c : Nonlin.Cfg ℂ),
      0 < c.D →
        c.fq ≠ 0 →
          0 < c.N →
            2 * Alias.Kc c < ↑c.N →
              ∀ (s : ℝ),
                s ≠ 0 →
                  ∀ (x : Array ℂ),
                    AliasND.IsRealND c.D c.N x →
                      ∀ j < c.N ^ c.D,
                        (Nonlin.nifft c (Transform.rfftnM c.D c.N x)).getD j 0 = PKfield c s x (gridPt s c.D c.N j) :=
  @Exponax.AliasMulti.nifft_rfftn_eq_PKfield

open Exponax.AliasMulti Exponax.AliasND Exponax.Nonlin in
theorem C03_convection_is_continuous_operator_nd :
    ∀ (c : Nonlin.Cfg ℂ),
      0 < c.D →
        c.fq ≠ 0 →
          3 * Alias.Kc c < ↑c.N →
            0 < c.N →
              ∀ (s : ℝ),
                c.s = ↑s →
                  ∀ (b : ℂ) (x : Array ℂ),
                    AliasND.IsRealND c.D c.N x →
                      HasCoeffs s (Alias.Kc c + Alias.Kc c) (opConsConv b (PKfield c s x))
                          (consConvCoef s (Alias.Kc c) b (ucoef c x)) ∧
                        ∀ h < Layout.numModes c.D c.N,
                          (Nonlin.mask c h = 1 →
                              Nonlin.at2 (Nonlin.convection c 1 b true true #[Transform.rfftnM c.D c.N x]) 0 h =
                                ↑(c.N ^ c.D) * consConvCoef s (Alias.Kc c) b (ucoef c x) (AliasND.kvec c.D c.N h)) ∧
                            (Nonlin.mask c h = 0 →
                              Nonlin.at2 (Nonlin.convection c 1 b true true #[Transform.rfftnM c.D c.N x]) 0 h = 0) :=
  @Exponax.AliasMulti.convection_conservative_continuous_nd

open Exponax.AliasMulti Exponax.AliasND Exponax.Nonlin in
theorem C03_gradient_norm_is_continuous_operator_nd :
    ∀ (c : Nonlin.Cfg ℂ),
      0 < c.D →
        c.fq ≠ 0 →
          3 * Alias.Kc c < ↑c.N →
            0 < c.N →
              ∀ (s : ℝ),
                c.s = ↑s →
                  ∀ (b : ℂ) (zeroFix : Bool) (x : Array ℂ),
                    AliasND.IsRealND c.D c.N x →
                      HasCoeffs s (Alias.Kc c + Alias.Kc c) (opGradNorm b (PKfield c s x))
                          (gradNormCoef s (Alias.Kc c) b (ucoef c x)) ∧
                        (∀ h < Layout.numModes c.D c.N,
                            (Nonlin.mask c h = 1 →
                                Nonlin.at2 (Nonlin.gradientNorm c 1 b zeroFix #[Transform.rfftnM c.D c.N x]) 0 h =
                                  ↑(c.N ^ c.D) *
                                    if zeroFix = true ∧ AliasND.kvec c.D c.N h = 0 then 0
                                    else gradNormCoef s (Alias.Kc c) b (ucoef c x) (AliasND.kvec c.D c.N h)) ∧
                              (Nonlin.mask c h = 0 →
                                Nonlin.at2 (Nonlin.gradientNorm c 1 b zeroFix #[Transform.rfftnM c.D c.N x]) 0 h = 0)) ∧
                          (0 ≤ Alias.Kc c →
                            HasCoeffs s (Alias.Kc c + Alias.Kc c)
                              (fun ξ ↦ opGradNorm b (PKfield c s x) ξ - gradNormCoef s (Alias.Kc c) b (ucoef c x) 0) fun r ↦
                              if r = 0 then 0 else gradNormCoef s (Alias.Kc c) b (ucoef c x) r) :=
  @Exponax.AliasMulti.gradientNorm_continuous_nd

open Exponax.AliasMulti Exponax.AliasND Exponax.Nonlin in
theorem C03_cubic_is_continuous_operator_nd :
    ∀ (c : Nonlin.Cfg ℂ),
      0 < c.D →
        c.fq ≠ 0 →
          4 * Alias.Kc c < ↑c.N →
            0 < c.N →
              ∀ (s : ℝ) (c0 c1 c2 c3 : ℂ) (x : Array ℂ),
                AliasND.IsRealND c.D c.N x →
                  (0 ≤ Alias.Kc c →
                      HasCoeffs s (Alias.Kc c + Alias.Kc c + Alias.Kc c) (opPoly3 c0 c1 c2 c3 (PKfield c s x))
                        (poly3Coef (Alias.Kc c) c0 c1 c2 c3 (ucoef c x))) ∧
                    ∀ h < Layout.numModes c.D c.N,
                      (Nonlin.mask c h = 1 →
                          Nonlin.at2 (Nonlin.polynomial c 1 [c0, c1, c2, c3] #[Transform.rfftnM c.D c.N x]) 0 h =
                            ↑(c.N ^ c.D) * poly3Coef (Alias.Kc c) c0 c1 c2 c3 (ucoef c x) (AliasND.kvec c.D c.N h)) ∧
                        (Nonlin.mask c h = 0 →
                          Nonlin.at2 (Nonlin.polynomial c 1 [c0, c1, c2, c3] #[Transform.rfftnM c.D c.N x]) 0 h = 0) :=
  @Exponax.AliasMulti.polynomial_cubic_continuous_nd

open Exponax.AliasMulti Exponax.AliasND Exponax.Nonlin in
theorem C03_convection_nonconservative_is_continuous_operator_nd :
    ∀ (c : Nonlin.Cfg ℂ),
      0 < c.D →
        c.fq ≠ 0 →
          3 * Alias.Kc c < ↑c.N →
            0 < c.N →
              ∀ (s : ℝ),
                c.s = ↑s →
                  ∀ (b : ℂ) (x : Array ℂ),
                    AliasND.IsRealND c.D c.N x →
                      HasCoeffs s (Alias.Kc c + Alias.Kc c) (opNonConsConv b (PKfield c s x))
                          (nonConsConvCoef s (Alias.Kc c) b (ucoef c x)) ∧
                        ∀ h < Layout.numModes c.D c.N,
                          (Nonlin.mask c h = 1 →
                              Nonlin.at2 (Nonlin.convection c 1 b true false #[Transform.rfftnM c.D c.N x]) 0 h =
                                ↑(c.N ^ c.D) * nonConsConvCoef s (Alias.Kc c) b (ucoef c x) (AliasND.kvec c.D c.N h)) ∧
                            (Nonlin.mask c h = 0 →
                              Nonlin.at2 (Nonlin.convection c 1 b true false #[Transform.rfftnM c.D c.N x]) 0 h = 0) :=
  @Exponax.AliasMulti.convection_single_nc_continuous_nd


end Exponax
