import ExponaxModel.Proofs.SmallGaps4Linear
/-
C13 (continued) — step-level "specific = generic" for the LINEAR steppers and for Navier–Stokes in vorticity form.  Separate
file because the library builds on `Proofs/SmallGaps2Specific.lean` (`baseStep_congr`) and `Proofs/InterfaceAssembly2.lean`
(`GeneralLinearStepper_step`); audited with `Properties/C13_assembly.lean`.

`X_step a` is `Interface.baseStep` (regenerated `BaseStepper.__init__` + `step_fourier`: derivative operator of `(D, L, N)`,
regenerated ETDRK coefficients and stage formulas of the order the class hands to `BaseStepper`, whole spectra of all channels)
on the class's regenerated `_build_linear_operator` (`Gen.Steppers`) applied to the regenerated STORED attributes and on its
regenerated `__init__ → _build_nonlinear_fun` wiring (`Gen.StepperWiring`).  The linear classes (`Advection`, `Diffusion`,
`AdvectionDiffusion`, `Dispersion`, `HyperDiffusion`, `GeneralLinearStepper`) fix `order = 0`, 16 contour points, radius 1
themselves, so that is the order covered for them; `NavierStokesVorticity` / `GeneralVorticityConvectionStepper` forward the
order (0..4), the dealiasing fraction and the contour.  Every `D`, `N`, complex `L`, `dt`.

  Advection(v)                 = GeneralLinearStepper([0, −v])
  Diffusion(ν)                 = GeneralLinearStepper([0, 0, ν])
  AdvectionDiffusion(v, ν)     = GeneralLinearStepper([0, −v, ν])
  Dispersion(ξ)                = GeneralLinearStepper([0, 0, 0, +ξ])      default flag, or D = 1 with any flag
  HyperDiffusion(μ)            = GeneralLinearStepper([0, 0, 0, 0, −μ])   default flag, or D = 1 with any flag
  NavierStokesVorticity(ν, b, drag) = GeneralVorticityConvectionStepper(b, [drag / D, 0, ν], injection_scale = 0)

The non-default mixing flags and anisotropic coefficients have no generic equivalent in `D ≥ 2`, and the naive zeroth coefficient
`drag` (instead of `drag / D`) is wrong in the class's dimension `D = 2` — counterexample theorems below.
-/
set_option linter.unusedVariables false
namespace Exponax

/-! ### Advection -/

open Exponax.Interface in
/-- `Advection` with a scalar velocity `v` takes the same step (whole spectrum) as `GeneralLinearStepper` with
    `linear_coefficients = (0, −v)` on the same `D`, `L`, `N`, `dt`; every `D`, `N`, complex `L`, `dt`. -/
theorem C13_advection_step_is_general_linear_step :
    ∀ (a : Gen.StepperWiring.AdvectionArgs ℂ) (v : ℂ),
      a.velocity = Gen.StepperWiring.Arg.scalar v →
        Advection_step a =
          GeneralLinearStepper_step
            { num_spatial_dims := a.num_spatial_dims, domain_extent := a.domain_extent, num_points := a.num_points,
              dt := a.dt, linear_coefficients := [0, -v] } :=
  @Exponax.Interface.Advection_step_eq_general

open Exponax.Interface in
/-- the same for a velocity VECTOR all of whose entries are `v` (in particular every one-entry vector in 1-D). -/
theorem C13_advection_uniform_vector_step_is_general_linear_step :
    ∀ (a : Gen.StepperWiring.AdvectionArgs ℂ) (v : ℂ),
      a.velocity = Gen.StepperWiring.Arg.vector (List.replicate a.num_spatial_dims v) →
        Advection_step a =
          GeneralLinearStepper_step
            { num_spatial_dims := a.num_spatial_dims, domain_extent := a.domain_extent, num_points := a.num_points,
              dt := a.dt, linear_coefficients := [0, -v] } :=
  @Exponax.Interface.Advection_step_eq_general_uniform_vector

open Exponax.Interface in
/-- an ANISOTROPIC velocity `(v₁, v₂)`, `v₁ ≠ v₂`, has no generic equivalent, whatever the coefficient list: the generic
    operator agrees on `κ = (i, 0)` and `κ = (0, i)`, the regenerated `Advection` operator does not. -/
theorem C13_advection_anisotropic_has_no_general_equivalent :
    ∀ (v₁ v₂ : ℂ), v₁ ≠ v₂ → ∀ (cs : List ℂ),
      ¬ (Gen.Steppers.Advection_linear_operator [Complex.I, 0] [v₁, v₂]
            = Gen.Steppers.GeneralLinearStepper_linear_operator [Complex.I, 0] cs
          ∧ Gen.Steppers.Advection_linear_operator [0, Complex.I] [v₁, v₂]
            = Gen.Steppers.GeneralLinearStepper_linear_operator [0, Complex.I] cs) :=
  @Exponax.Interface.Advection_anisotropic_ne_general_2d

/-! ### Diffusion -/

open Exponax.Interface in
/-- `Diffusion` with a scalar diffusivity `ν` takes the same step as `GeneralLinearStepper` with
    `linear_coefficients = (0, 0, ν)`. -/
theorem C13_diffusion_step_is_general_linear_step :
    ∀ (a : Gen.StepperWiring.DiffusionArgs ℂ) (ν : ℂ),
      a.diffusivity = Gen.StepperWiring.Arg.scalar ν →
        Diffusion_step a =
          GeneralLinearStepper_step
            { num_spatial_dims := a.num_spatial_dims, domain_extent := a.domain_extent, num_points := a.num_points,
              dt := a.dt, linear_coefficients := [0, 0, ν] } :=
  @Exponax.Interface.Diffusion_step_eq_general

open Exponax.Interface in
/-- the same for a diffusivity VECTOR all of whose entries are `ν` (stored as `diag(ν, …, ν)`). -/
theorem C13_diffusion_uniform_vector_step_is_general_linear_step :
    ∀ (a : Gen.StepperWiring.DiffusionArgs ℂ) (ν : ℂ),
      a.diffusivity = Gen.StepperWiring.Arg.vector (List.replicate a.num_spatial_dims ν) →
        Diffusion_step a =
          GeneralLinearStepper_step
            { num_spatial_dims := a.num_spatial_dims, domain_extent := a.domain_extent, num_points := a.num_points,
              dt := a.dt, linear_coefficients := [0, 0, ν] } :=
  @Exponax.Interface.Diffusion_step_eq_general_uniform_vector

open Exponax.Interface in
/-- … and for the diffusivity MATRIX `ν·I`. -/
theorem C13_diffusion_scalar_matrix_step_is_general_linear_step :
    ∀ (a : Gen.StepperWiring.DiffusionArgs ℂ) (ν : ℂ),
      a.diffusivity = Gen.StepperWiring.Arg.matrix (StepperWiringEq.scalarM a.num_spatial_dims ν) →
        Diffusion_step a =
          GeneralLinearStepper_step
            { num_spatial_dims := a.num_spatial_dims, domain_extent := a.domain_extent, num_points := a.num_points,
              dt := a.dt, linear_coefficients := [0, 0, ν] } :=
  @Exponax.Interface.Diffusion_step_eq_general_scalar_matrix

/-! ### AdvectionDiffusion -/

open Exponax.Interface in
/-- `AdvectionDiffusion` with scalar velocity `v` and scalar diffusivity `ν` takes the same step as `GeneralLinearStepper`
    with `linear_coefficients = (0, −v, ν)`. -/
theorem C13_advection_diffusion_step_is_general_linear_step :
    ∀ (a : Gen.StepperWiring.AdvectionDiffusionArgs ℂ) (v ν : ℂ),
      a.velocity = Gen.StepperWiring.Arg.scalar v →
        a.diffusivity = Gen.StepperWiring.Arg.scalar ν →
          AdvectionDiffusion_step a =
            GeneralLinearStepper_step
              { num_spatial_dims := a.num_spatial_dims, domain_extent := a.domain_extent, num_points := a.num_points,
                dt := a.dt, linear_coefficients := [0, -v, ν] } :=
  @Exponax.Interface.AdvectionDiffusion_step_eq_general

open Exponax.Interface in
/-- the same for a velocity vector and a diffusivity vector with equal entries. -/
theorem C13_advection_diffusion_uniform_vector_step_is_general_linear_step :
    ∀ (a : Gen.StepperWiring.AdvectionDiffusionArgs ℂ) (v ν : ℂ),
      a.velocity = Gen.StepperWiring.Arg.vector (List.replicate a.num_spatial_dims v) →
        a.diffusivity = Gen.StepperWiring.Arg.vector (List.replicate a.num_spatial_dims ν) →
          AdvectionDiffusion_step a =
            GeneralLinearStepper_step
              { num_spatial_dims := a.num_spatial_dims, domain_extent := a.domain_extent, num_points := a.num_points,
                dt := a.dt, linear_coefficients := [0, -v, ν] } :=
  @Exponax.Interface.AdvectionDiffusion_step_eq_general_uniform_vector

/-! ### Dispersion -/

open Exponax.Interface in
/-- `Dispersion` with a scalar dispersivity `ξ` and the default `advect_on_diffusion = False` takes the same step as
    `GeneralLinearStepper` with `linear_coefficients = (0, 0, 0, +ξ)` (PLUS: unlike the dispersivity of `KortewegDeVries`,
    which enters the generic list as `−ξ`). -/
theorem C13_dispersion_step_is_general_linear_step :
    ∀ (a : Gen.StepperWiring.DispersionArgs ℂ) (ξ : ℂ),
      a.dispersivity = Gen.StepperWiring.Arg.scalar ξ →
        a.advect_on_diffusion = false →
          Dispersion_step a =
            GeneralLinearStepper_step
              { num_spatial_dims := a.num_spatial_dims, domain_extent := a.domain_extent, num_points := a.num_points,
                dt := a.dt, linear_coefficients := [0, 0, 0, ξ] } :=
  @Exponax.Interface.Dispersion_step_eq_general

open Exponax.Interface in
/-- in ONE dimension the same holds for either value of `advect_on_diffusion` (`∂_x ∘ ∂_xx = ∂_xxx`). -/
theorem C13_dispersion_step_is_general_linear_step_1d :
    ∀ (a : Gen.StepperWiring.DispersionArgs ℂ) (ξ : ℂ),
      a.dispersivity = Gen.StepperWiring.Arg.scalar ξ →
        a.num_spatial_dims = 1 →
          Dispersion_step a =
            GeneralLinearStepper_step
              { num_spatial_dims := a.num_spatial_dims, domain_extent := a.domain_extent, num_points := a.num_points,
                dt := a.dt, linear_coefficients := [0, 0, 0, ξ] } :=
  @Exponax.Interface.Dispersion_step_eq_general_1d

open Exponax.Interface in
/-- `advect_on_diffusion = True` is NOT the generic `(0, 0, 0, ξ)` in two dimensions: at `κ = (i, i)` the regenerated
    operators are `−4iξ` and `−2iξ`, for every `ξ ≠ 0`. -/
theorem C13_dispersion_mixed_flag_is_not_general_2d :
    ∀ (ξ : ℂ), ξ ≠ 0 →
      Gen.Steppers.Dispersion_linear_operator [Complex.I, Complex.I] (List.replicate 2 ξ) true ≠
        Gen.Steppers.GeneralLinearStepper_linear_operator [Complex.I, Complex.I] [0, 0, 0, ξ] :=
  @Exponax.Interface.Dispersion_mixed_ne_general_2d

/-! ### HyperDiffusion -/

open Exponax.Interface in
/-- `HyperDiffusion` with hyper-diffusivity `μ` and the default `diffuse_on_diffuse = False` takes the same step as
    `GeneralLinearStepper` with `linear_coefficients = (0, 0, 0, 0, −μ)`. -/
theorem C13_hyper_diffusion_step_is_general_linear_step :
    ∀ (a : Gen.StepperWiring.HyperDiffusionArgs ℂ),
      a.diffuse_on_diffuse = false →
        HyperDiffusion_step a =
          GeneralLinearStepper_step
            { num_spatial_dims := a.num_spatial_dims, domain_extent := a.domain_extent, num_points := a.num_points,
              dt := a.dt, linear_coefficients := [0, 0, 0, 0, -a.hyper_diffusivity] } :=
  @Exponax.Interface.HyperDiffusion_step_eq_general

open Exponax.Interface in
/-- in ONE dimension the same holds for either value of `diffuse_on_diffuse` (`∂_xx ∘ ∂_xx = ∂_xxxx`). -/
theorem C13_hyper_diffusion_step_is_general_linear_step_1d :
    ∀ (a : Gen.StepperWiring.HyperDiffusionArgs ℂ),
      a.num_spatial_dims = 1 →
        HyperDiffusion_step a =
          GeneralLinearStepper_step
            { num_spatial_dims := a.num_spatial_dims, domain_extent := a.domain_extent, num_points := a.num_points,
              dt := a.dt, linear_coefficients := [0, 0, 0, 0, -a.hyper_diffusivity] } :=
  @Exponax.Interface.HyperDiffusion_step_eq_general_1d

open Exponax.Interface in
/-- `diffuse_on_diffuse = True` is NOT the generic `(0, 0, 0, 0, −μ)` in two dimensions: at `κ = (i, i)` the regenerated
    operators are `−4μ` and `−2μ`, for every `μ ≠ 0`. -/
theorem C13_hyper_diffusion_mixed_flag_is_not_general_2d :
    ∀ (μ : ℂ), μ ≠ 0 →
      Gen.Steppers.HyperDiffusion_linear_operator [Complex.I, Complex.I] μ true ≠
        Gen.Steppers.GeneralLinearStepper_linear_operator [Complex.I, Complex.I] [0, 0, 0, 0, -μ] :=
  @Exponax.Interface.HyperDiffusion_mixed_ne_general_2d

/-! ### Navier–Stokes (vorticity) -/

open Exponax.Interface in
/-- `NavierStokesVorticity(ν, b, drag, order, dealiasing, contour)` takes the same step as
    `GeneralVorticityConvectionStepper` with the same `b`, order (0..4), dealiasing fraction and contour,
    `linear_coefficients = (drag / D, 0, ν)`, a numeric `injection_scale = 0` and ANY `injection_mode`; `D ≥ 1`
    (the class accepts `D = 2`: `drag / 2`). -/
theorem C13_navier_stokes_vorticity_step_is_general_vorticity_step :
    ∀ (a : Gen.StepperWiring.NavierStokesVorticityArgs ℂ),
      a.num_spatial_dims ≠ 0 →
        ∀ (m : ℕ),
          NavierStokesVorticity_step a =
            GeneralVorticityConvectionStepper_step
              { num_spatial_dims := a.num_spatial_dims, domain_extent := a.domain_extent, num_points := a.num_points,
                dt := a.dt, vorticity_convection_scale := a.vorticity_convection_scale,
                linear_coefficients := [a.drag / (a.num_spatial_dims : ℂ), 0, a.diffusivity], injection_mode := m,
                injection_scale := 0, order := a.order, dealiasing_fraction := a.dealiasing_fraction,
                num_circle_points := a.num_circle_points, circle_radius := a.circle_radius }
              true :=
  @Exponax.Interface.NavierStokesVorticity_step_eq_general_any_mode

open Exponax.Interface in
/-- without drag (the default `drag = 0`) the list is `(0, 0, ν)`, for every `D`. -/
theorem C13_navier_stokes_vorticity_no_drag_step_is_general_vorticity_step :
    ∀ (a : Gen.StepperWiring.NavierStokesVorticityArgs ℂ),
      a.drag = 0 →
        NavierStokesVorticity_step a =
          GeneralVorticityConvectionStepper_step
            { num_spatial_dims := a.num_spatial_dims, domain_extent := a.domain_extent, num_points := a.num_points,
              dt := a.dt, vorticity_convection_scale := a.vorticity_convection_scale,
              linear_coefficients := [0, 0, a.diffusivity], injection_mode := 4, injection_scale := 0,
              order := a.order, dealiasing_fraction := a.dealiasing_fraction,
              num_circle_points := a.num_circle_points, circle_radius := a.circle_radius }
            true :=
  @Exponax.Interface.NavierStokesVorticity_step_eq_general_no_drag

open Exponax.Interface in
/-- the naive zeroth coefficient `a₀ = drag` is NOT the equivalent in the class's dimension `D = 2`: the generic symbol has
    `a₀ · Σ_d (i k_d)⁰ = 2·a₀`, so the regenerated operators differ at the mean mode for every `drag ≠ 0`. -/
theorem C13_navier_stokes_vorticity_zeroth_coefficient_is_drag_over_D :
    ∀ (N : ℕ) (L ν drag : ℂ),
      drag ≠ 0 →
        Gen.Steppers.NavierStokesVorticity_linear_operator (kappa (baseCfg 2 N L) 0) ν drag ≠
          Gen.Steppers.GeneralVorticityConvectionStepper_linear_operator (kappa (baseCfg 2 N L) 0) [drag, 0, ν] :=
  @Exponax.Interface.NavierStokesVorticity_naive_drag_false_2d

end Exponax
