import ExponaxModel.Proofs.MetricsAlgebra
import ExponaxModel.Proofs.MetricsGenEq
import ExponaxModel.Proofs.MetricsGenFourierEq
import ExponaxModel.Proofs.SmallGapsMetrics
import ExponaxModel.Proofs.SmallGapsResample
import ExponaxModel.Proofs.SmallGaps2Corr
import ExponaxModel.Proofs.SmallGaps2Integral
/-
C16 — error metrics are consistent quadratures of the documented norms.
`Metrics.*` mirrors `exponax/metrics/*.py` on one channel + the per-channel combination (tied by the
correspondence for every exported metric function).
-/
set_option linter.unusedVariables false
namespace Exponax
open Exponax.Metrics Exponax.Layout

/-- the value is the documented quadrature `((L/N)^D Σ |u_j|^p)^q` -/
theorem C16_quadrature (D N : ℕ) (L p q : ℝ) (u : Array ℝ) :
    spatialAggregator D N L p q u = ((L / (N : ℝ)) ^ D * ∑ j ∈ Finset.range u.size, |u.getD j 0| ^ p) ^ q :=
  spatialAggregator_eq_sum D N L p q u

/-- it scales with the domain extent as `(a^D)^q` (so `L^D` for outer exponent 1) -/
theorem C16_L_scaling (D N : ℕ) (a L p q : ℝ) (ha : 0 < a) (hL : 0 ≤ L) (u : Array ℝ) :
    spatialAggregator D N (a * L) p q u = (a ^ D) ^ q * spatialAggregator D N L p q u :=
  spatialAggregator_scale_L D N a L p q ha hL u

/-- PARSEVAL: with inner exponent 2 the Fourier aggregate of the stored half spectrum (weights
    `1/reconstruction scaling`) equals the spatial aggregate, every `D ≥ 1`, `N ≥ 1` (floor 0, no band) -/
theorem C16_parseval (D N : ℕ) (hD : 1 ≤ D) (hN : 0 < N) (L s q : ℝ) (ur : Array ℝ) (hsz : ur.size = N ^ D) :
    fourierAggregator D N L s 2 q none none 0 (magnitudes D N ur) = spatialAggregator D N L 2 q ur :=
  fourierAggregator_magnitudes D N hD hN L s q ur hsz

theorem C16_parseval_weights (D N : ℕ) (hD : 1 ≤ D) (hN : 0 < N) (u : Array ℂ) (hu : ∀ j < N ^ D, (u.getD j 0).im = 0) :
    ∑ j ∈ Finset.range (N ^ D), ‖u.getD j 0‖ ^ 2 =
      ∑ h ∈ Finset.range (numModes D N),
        ‖(Transform.rfftnM D N u).getD h 0‖ ^ 2 / (scaling D N 1 (unflatten (wavenumberShape D N) h) : ℝ) :=
  parseval_scaling D N hD hN u hu

/-- absolute metrics split additively over channels -/
theorem C16_channel_additive (dn rn sn : List ℝ) : combine 0 dn rn sn = dn.sum := combine_zero dn rn sn

/-- … and (outer exponent 1) over disjoint frequency bands `[a,b]`, `[b+1,c]`; the full band is everything -/
theorem C16_band_additive (D N : ℕ) (L s p : ℝ) (hp : p ≠ 0) (a b c : ℕ) (hab : a ≤ b) (hbc : b ≤ c)
    (floor : ℝ) (mag : Array ℝ) :
    fourierAggregator D N L s p 1 (some (a, c)) none floor mag =
      fourierAggregator D N L s p 1 (some (a, b)) none floor mag +
        fourierAggregator D N L s p 1 (some (b + 1, c)) none floor mag :=
  fourierAggregator_band_add D N L s p hp a b c hab hbc floor mag

theorem C16_band_full (D N hi : ℕ) (hD : 1 ≤ D) (hN : 0 < N) (hhi : N / 2 ≤ hi) (L s p q : ℝ) (deriv : Option ℝ)
    (floor : ℝ) (mag : Array ℝ) :
    fourierAggregator D N L s p q (some (0, hi)) deriv floor mag = fourierAggregator D N L s p q none deriv floor mag :=
  fourierAggregator_band_full D N hi hD hN hhi L s p q deriv floor mag

/-- zero for identical inputs, positive otherwise -/
theorem C16_zero_iff (D N : ℕ) (L p q : ℝ) (hp : 0 < p) (hq : 0 < q) (hL : 0 < L) (hN : 0 < N) (u : Array ℝ) :
    (spatialAggregator D N L p q u = 0 ↔ ∀ x ∈ u.toList, x = 0) ∧
    ((∃ x ∈ u.toList, x ≠ 0) → 0 < spatialAggregator D N L p q u) :=
  ⟨spatialAggregator_eq_zero_iff D N L p q hp hq hL hN u, spatialAggregator_pos D N L p q hp hq hL hN u⟩

/-- symmetric in its two arguments -/
theorem C16_symmetric (D N n : ℕ) (L p q : ℝ) (u r : Array ℝ) :
    spatialAggregator D N L p q (Transform.tab n fun j => u.getD j 0 - r.getD j 0) =
      spatialAggregator D N L p q (Transform.tab n fun j => r.getD j 0 - u.getD j 0) :=
  spatialAggregator_sub_comm_tab D N n L p q u r

/-- homogeneous of degree `p·q` under common scaling (1 for MAE/RMSE, 2 for MSE) -/
theorem C16_homogeneous (D N : ℕ) (L p q a : ℝ) (hL : 0 ≤ L) (u : Array ℝ) :
    spatialAggregator D N L p q (u.map fun x => a * x) = |a| ^ (p * q) * spatialAggregator D N L p q u :=
  spatialAggregator_smul D N L p q a hL u

/-- normalized and symmetric variants are scale-free; the symmetric one is symmetric -/
theorem C16_scale_free (t : ℝ) (ht : t ≠ 0) (dn rn sn : List ℝ) :
    combine 1 (dn.map (t * ·)) (rn.map (t * ·)) (sn.map (t * ·)) = combine 1 dn rn sn ∧
    combine 2 (dn.map (t * ·)) (rn.map (t * ·)) (sn.map (t * ·)) = combine 2 dn rn sn ∧
    combine 2 dn rn sn = combine 2 dn sn rn :=
  ⟨combine_one_scale_free t ht dn rn sn, combine_two_scale_free t ht dn rn sn, combine_two_symm dn rn sn⟩

/-- correlation lies in `[−1, 1]`, and is `±1` for positively / negatively proportional fields -/
theorem C16_correlation (D N : ℕ) (L : ℝ) (hL : 0 < L) (hN : 0 < N) (u v : Array ℝ) (hu : u.size = N ^ D)
    (hv : v.size = N ^ D) :
    (-1 ≤ correlationChannel D N L u v ∧ correlationChannel D N L u v ≤ 1) ∧
    (∀ a : ℝ, 0 < a → (∃ x ∈ u.toList, x ≠ 0) → correlationChannel D N L u (u.map fun x => a * x) = 1) ∧
    (∀ a : ℝ, a < 0 → (∃ x ∈ u.toList, x ≠ 0) → correlationChannel D N L u (u.map fun x => a * x) = -1) :=
  ⟨correlationChannel_mem_Icc D N L hL.le u v hu hv,
    fun a ha hne => correlationChannel_smul_pos D N L a hL hN ha u hu hne,
    fun a ha hne => correlationChannel_smul_neg D N L a hL hN ha u hu hne⟩

/-
The Sobolev metrics are `fourier_X(derivative_order=None) + fourier_X(derivative_order=1)` by definition of the
exported functions (checked by the oracle on the implementation); `C16_resolution_independent` (a band-limited pair
sampled at another resolution gives the same p = 2 value) follows from C16_parseval + C04_single_mode read-off and is
checked by the oracle; it is not a Lean theorem for D > 1.
-/
example : bandMask [2, -3] 3 3 = true ∧ bandMask [2, -3] 0 2 = false := by decide
example : (0 : ℝ) < 2 ∧ (0 : ℝ) < 1 / 2 := by norm_num

/-! ### every exported metric, REGENERATED from `exponax/metrics/*.py` (27 functions found by `ast`), is the model
quadrature the theorems above are about -/
open Exponax.Gen.MetricsGen in
/-- the spatial aggregator and `spatial_norm` (all three modes) — for ANY scalar type, so also for the binary64 model the
    driver executes -/
theorem C16_generated_spatial {K : Type} [Add K] [Sub K] [Mul K] [Div K] [Neg K] [Zero K] [One K] [NatCast K] [IntCast K]
    [HasRpow K] [HasAbs K] [HasLtB K] [HasSqrt K] (D N : ℕ) (u : Array K) (us rs : List (Array K)) (mode : String)
    (L p q : K) :
    spatial_aggregator D N u none L none p (some q) = Metrics.spatialAggregator D N L p q u ∧
    spatial_norm D N us (some rs) mode L p (some q) =
      some (Metrics.combine (modeCode mode) (chanAgg D N L p q (chanSub us rs)) (chanAgg D N L p q rs)
        (chanAgg D N L p q us)) :=
  ⟨by simpa using spatial_aggregator_eq D N u none L none p (some q), spatial_norm_eq D N us rs mode L p q⟩

open Exponax.Gen.MetricsGen in
/-- the Fourier aggregator incl. its default band limits (`low = 0`, `high = N//2+1`), masks, scaling and cell volume -/
theorem C16_generated_fourier (D N : ℕ) (u : Array ℝ) (L p q : ℝ) (low high : Option ℕ) :
    fourier_aggregator D N (Metrics.toComplex u) none (L : ℂ) none (p : ℂ) (some (q : ℂ)) low high none =
      ((Metrics.fourierAggregator D N L (2 * Real.pi / L) p q (bandOf N low high) none (1 / 100000)
        (Metrics.magnitudes D N u) : ℝ) : ℂ) := fourier_aggregator_eq_model D N u L p q low high

theorem C16_generated_coverage : Gen.MetricsGen.generated_metrics.length = 27 := by
  rw [Gen.MetricsGen.generated_metrics_pinned]; rfl


/-! ### Sobolev metrics = plain metric + metric of the spectral gradient (regenerated `H1_*` functions, any scalar type; the
derivative-order-1 aggregator is the SUM over axes of the plain aggregator of the gradient components), and resolution
independence: the p = 2 metrics of a band-limited pair are unchanged by `mapBetween` to another resolution -/

open Exponax.SmallGaps in
theorem C16_sobolev_MSE_split :
    ∀ {K : Type} [inst : Add K] [inst_1 : Sub K] [inst_2 : Mul K] [inst_3 : Div K] [inst_4 : Neg K]
      [inst_5 : Zero K] [inst_6 : One K] [inst_7 : NatCast K] [inst_8 : IntCast K] [inst_9 : HasRpow K] [inst_10 : HasAbs K]
      [inst_11 : HasLtB K] [HasSqrt K] [inst_13 : HasExp K] [inst_14 : HasI K] [inst_15 : HasPi K]
      [inst_16 : Gen.Prelude.HasCpow K] (D N : ℕ) (u : List (Array K)) (L : K) (lo hi : Option ℕ)
      (ref : Option (List (Array K))),
      ∃ a b,
        Gen.MetricsGen.fourier_MSE D N u ref L lo hi none = some a ∧
          Gen.MetricsGen.fourier_MSE D N u ref L lo hi (some (lit 1)) = some b ∧
            Gen.MetricsGen.H1_MSE D N u ref L lo hi = some (a + b) :=
  @Exponax.SmallGaps.H1_MSE_split

open Exponax.SmallGaps in
theorem C16_sobolev_RMSE_split :
    ∀ {K : Type} [inst : Add K] [inst_1 : Sub K] [inst_2 : Mul K] [inst_3 : Div K] [inst_4 : Neg K]
      [inst_5 : Zero K] [inst_6 : One K] [inst_7 : NatCast K] [inst_8 : IntCast K] [inst_9 : HasRpow K] [inst_10 : HasAbs K]
      [inst_11 : HasLtB K] [HasSqrt K] [inst_13 : HasExp K] [inst_14 : HasI K] [inst_15 : HasPi K]
      [inst_16 : Gen.Prelude.HasCpow K] (D N : ℕ) (u : List (Array K)) (L : K) (lo hi : Option ℕ)
      (ref : Option (List (Array K))),
      ∃ a b,
        Gen.MetricsGen.fourier_RMSE D N u ref L lo hi none = some a ∧
          Gen.MetricsGen.fourier_RMSE D N u ref L lo hi (some (lit 1)) = some b ∧
            Gen.MetricsGen.H1_RMSE D N u ref L lo hi = some (a + b) :=
  @Exponax.SmallGaps.H1_RMSE_split

open Exponax.SmallGaps in
theorem C16_sobolev_nRMSE_split :
    ∀ {K : Type} [inst : Add K] [inst_1 : Sub K] [inst_2 : Mul K] [inst_3 : Div K] [inst_4 : Neg K]
      [inst_5 : Zero K] [inst_6 : One K] [inst_7 : NatCast K] [inst_8 : IntCast K] [inst_9 : HasRpow K] [inst_10 : HasAbs K]
      [inst_11 : HasLtB K] [HasSqrt K] [inst_13 : HasExp K] [inst_14 : HasI K] [inst_15 : HasPi K]
      [inst_16 : Gen.Prelude.HasCpow K] (D N : ℕ) (u : List (Array K)) (L : K) (lo hi : Option ℕ) (r : List (Array K)),
      ∃ a b,
        Gen.MetricsGen.fourier_nRMSE D N u r L lo hi none = some a ∧
          Gen.MetricsGen.fourier_nRMSE D N u r L lo hi (some (lit 1)) = some b ∧
            Gen.MetricsGen.H1_nRMSE D N u r L lo hi = some (a + b) :=
  @Exponax.SmallGaps.H1_nRMSE_split

open Exponax.SmallGaps in
theorem C16_derivative_metric_is_gradient_sum :
    ∀ (D N : ℕ) (L s p q : ℝ) (band : Option (ℕ × ℕ)) (floor : ℝ) (mag : Array ℝ),
      (∀ (h : ℕ), 0 ≤ mag.getD h 0) →
        Metrics.fourierAggregator D N L s p q band (some 1) floor mag =
          ∑ d ∈ Finset.range D, Metrics.fourierAggregator D N L s p q none none 0 (gradMag D N s band floor mag d) :=
  @Exponax.SmallGaps.fourierAggregator_deriv_one_eq_gradient

open Exponax.SmallGaps in
theorem C16_resolution_independent :
    ∀ (D Nold Nnew : ℕ),
      0 < D →
        0 < Nold →
          0 < Nnew →
            ∀ (ob : Bool) (L q : ℝ) (ur rr : Array ℝ),
              ur.size = Nold ^ D →
                rr.size = Nold ^ D →
                  Interp.BandLimitedN D Nold (min Nold Nnew) (Metrics.toComplex ur) →
                    Interp.BandLimitedN D Nold (min Nold Nnew) (Metrics.toComplex rr) →
                      Metrics.spatialAggregator D Nnew L 2 q
                          (rsub (Nnew ^ D) (reArr (Interp.mapBetween D Nold Nnew ob (Metrics.toComplex ur)))
                            (reArr (Interp.mapBetween D Nold Nnew ob (Metrics.toComplex rr)))) =
                        Metrics.spatialAggregator D Nold L 2 q (rsub (Nold ^ D) ur rr) :=
  @Exponax.SmallGaps.spatialAggregator_mapBetween_pair

open Exponax.SmallGaps in
theorem C16_generated_MSE_RMSE_resolution_independent :
    ∀ (D Nold Nnew : ℕ),
      0 < D →
        0 < Nold →
          0 < Nnew →
            ∀ (ob : Bool) (L : ℝ) (ur rr : Array ℝ),
              ur.size = Nold ^ D →
                rr.size = Nold ^ D →
                  Interp.BandLimitedN D Nold (min Nold Nnew) (Metrics.toComplex ur) →
                    Interp.BandLimitedN D Nold (min Nold Nnew) (Metrics.toComplex rr) →
                      have vu := reArr (Interp.mapBetween D Nold Nnew ob (Metrics.toComplex ur));
                      have vr := reArr (Interp.mapBetween D Nold Nnew ob (Metrics.toComplex rr));
                      Gen.MetricsGen.MSE D Nnew [vu] (some [vr]) L = Gen.MetricsGen.MSE D Nold [ur] (some [rr]) L ∧
                        Gen.MetricsGen.RMSE D Nnew [vu] (some [vr]) L = Gen.MetricsGen.RMSE D Nold [ur] (some [rr]) L :=
  @Exponax.SmallGaps.MSE_RMSE_resolution_independent



/-! ### the metric IS the continuous quantity: for a band-limited state the p = 2 aggregator equals the Mathlib integral of u²
over the box [0, L]^D (hence is independent of N); multi-channel correlation lies in [−1, 1] and is ±1 for proportional channels -/

open Exponax.SmallGaps2 in
theorem C16_correlation_multichannel :
    ∀ (D N : ℕ),
      0 < N →
        ∀ (u r : List (Array ℝ)),
          (∀ a ∈ u, a.size = N ^ D) →
            ((∀ a ∈ r, a.size = N ^ D) → -1 ≤ Gen.MetricsGen.correlation u r ∧ Gen.MetricsGen.correlation u r ≤ 1) ∧
              (u ≠ [] →
                  r.length = u.length →
                    (∀ a ∈ u, ∃ x ∈ a.toList, x ≠ 0) →
                      (∀ (c : ℕ) (h1 : c < u.length) (h2 : c < r.length),
                          ∃ a, 0 < a ∧ r[c] = Array.map (fun x ↦ a * x) u[c]) →
                        Gen.MetricsGen.correlation u r = 1) ∧
                (u ≠ [] →
                  r.length = u.length →
                    (∀ a ∈ u, ∃ x ∈ a.toList, x ≠ 0) →
                      (∀ (c : ℕ) (h1 : c < u.length) (h2 : c < r.length), ∃ a < 0, r[c] = Array.map (fun x ↦ a * x) u[c]) →
                        Gen.MetricsGen.correlation u r = -1) :=
  @Exponax.SmallGaps2.generated_correlation_multichannel

open Exponax.SmallGaps2 in
theorem C16_metric_is_the_integral :
    ∀ (D N : ℕ),
      0 < N →
        ∀ (L : ℝ),
          0 < L →
            ∀ (ms : ExactLinear.Modes),
              (∀ x ∈ ms, ExactLinear.BelowNyquist D N x.1) →
                Metrics.spatialAggregator D N L 2 1 (SmallGaps.reArr (ExactLinear.stateOf D N ms)) =
                  ∫ (x : Fin D → ℝ) in box D L, trigPoly D L ms x ^ 2 :=
  @Exponax.SmallGaps2.spatialAggregator_eq_integral

open Exponax.SmallGaps2 in
theorem C16_band_limited_metric_independent_of_N :
    ∀ (D N N' : ℕ),
      0 < N →
        0 < N' →
          ∀ (L q : ℝ) (ms : ExactLinear.Modes),
            (∀ x ∈ ms, ExactLinear.BelowNyquist D N x.1) →
              (∀ x ∈ ms, ExactLinear.BelowNyquist D N' x.1) →
                Metrics.spatialAggregator D N L 2 q (SmallGaps.reArr (ExactLinear.stateOf D N ms)) =
                  Metrics.spatialAggregator D N' L 2 q (SmallGaps.reArr (ExactLinear.stateOf D N' ms)) :=
  @Exponax.SmallGaps2.spatialAggregator_stateOf_resolution_independent


end Exponax
