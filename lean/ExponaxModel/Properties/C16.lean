import ExponaxModel.Proofs.Instances
import ExponaxModel.Proofs.LayoutLemmas
import ExponaxModel.Model.Metrics
/-
C16 — error metrics are consistent quadratures of the documented norms.
(Parseval / scaling / homogeneity theorems live in `Proofs/MetricsAlgebra.lean`; this file holds the property
statements.)
-/
set_option linter.unusedVariables false
namespace Exponax
open Exponax.Metrics Exponax.Layout

/-- absolute metrics split additively over channels -/
theorem C16_channel_additive (dn rn sn : List ℝ) :
    combine 0 dn rn sn = ((List.range dn.length).map (fun c => dn.getD c 0)).sum := by
  simp [combine, sumList_eq]

/-- the band mask keeps exactly the modes with `low ≤ |k|_∞ ≤ high` -/
theorem C16_band_mask_iff (k : List ℤ) (lo hi : ℕ) :
    bandMask k lo hi = true ↔ (¬ (∀ kd ∈ k, |kd| ≤ (lo : ℤ) - 1)) ∧ (∀ kd ∈ k, |kd| ≤ (hi : ℤ)) := by
  simp only [bandMask, Bool.and_eq_true, Bool.not_eq_true', lowPassSep_iff, mul_one]
  constructor
  · rintro ⟨h1, h2⟩
    exact ⟨fun h => by have := (lowPassSep_iff k ((lo : ℤ) - 1) 1).2 (by simpa using h); simp_all, h2⟩
  · rintro ⟨h1, h2⟩
    refine ⟨?_, h2⟩
    by_contra hc
    have hc' : lowPassSep k ((lo : ℤ) - 1) 1 = true := by simpa using hc
    exact h1 (by simpa using (lowPassSep_iff k ((lo : ℤ) - 1) 1).1 hc')

/-- disjoint frequency bands: a mode is in at most one of `[a, b]`, `[b+1, c]` and in their union `[a, c]`
    iff it is in one of them (`a ≤ b ≤ c`) -/
theorem C16_band_partition (k : List ℤ) (a b c : ℕ) (hab : a ≤ b) (hbc : b ≤ c) :
    (bandMask k a c = true ↔ (bandMask k a b = true ∨ bandMask k (b + 1) c = true)) ∧
    ¬ (bandMask k a b = true ∧ bandMask k (b + 1) c = true) := by
  simp only [C16_band_mask_iff]
  push_cast
  constructor
  · constructor
    · rintro ⟨h1, h2⟩
      by_cases hb : ∀ kd ∈ k, |kd| ≤ (b : ℤ)
      · exact Or.inl ⟨h1, hb⟩
      · exact Or.inr ⟨by simpa using hb, h2⟩
    · rintro (⟨h1, h2⟩ | ⟨h1, h2⟩)
      · exact ⟨h1, fun kd hk => (h2 kd hk).trans (by exact_mod_cast hbc)⟩
      · refine ⟨fun h => h1 (fun kd hk => ?_), h2⟩
        have := h kd hk
        have : (a : ℤ) ≤ b := by exact_mod_cast hab
        omega
  · rintro ⟨⟨_, h2⟩, ⟨h3, _⟩⟩
    exact h3 (fun kd hk => by have := h2 kd hk; omega)

example : bandMask [2, -3] 3 3 = true ∧ bandMask [2, -3] 0 2 = false := by decide

end Exponax
