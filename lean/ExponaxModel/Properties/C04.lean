import Mathlib.Tactic
import ExponaxModel.Model.Layout
import ExponaxModel.Proofs.LayoutLemmas
import ExponaxModel.Proofs.DFT
import ExponaxModel.Proofs.ExactLinearModes
import ExponaxModel.Proofs.ExactLinearIndex
import ExponaxModel.Proofs.SpectralLayoutEq
import ExponaxModel.Proofs.SpectralOpsEq
import ExponaxModel.Proofs.SmallGapsCoef
import ExponaxModel.Proofs.SmallGaps2XY
import ExponaxModel.Proofs.SmallGaps2Nyquist
/-
C04 — grid, FFT and Fourier-coefficient conventions are mutually consistent.
Index / layout part (all `N`, no bound).  The DFT part (round trip, single-mode
read-off) is in `Proofs/DFT*.lean` and imported below once available.
-/
set_option linter.unusedVariables false
namespace Exponax
open Exponax.Layout Exponax.Transform Exponax.DFT Finset

/-- the stored leading-axis entry `i` names a wavenumber congruent to `i` modulo `N` … -/
theorem C04_fftfreq_congr (N i : ℕ) (hi : i < N) : (fftfreq N i - (i : ℤ)) % (N : ℤ) = 0 := by
  unfold fftfreq; split <;> simp

/-- … inside the symmetric band `[-N/2, (N-1)/2]` (the Nyquist entry of an even grid is negative) -/
theorem C04_fftfreq_range (N i : ℕ) (hi : i < N) :
    -((N / 2 : ℕ) : ℤ) ≤ fftfreq N i ∧ fftfreq N i ≤ (((N - 1) / 2 : ℕ) : ℤ) := by
  unfold fftfreq; split <;> omega

theorem C04_fftfreq_injective (N i j : ℕ) (hi : i < N) (hj : j < N) (h : fftfreq N i = fftfreq N j) : i = j := by
  unfold fftfreq at h; split at h <;> split at h <;> omega

/-- every wavenumber of the band is stored exactly once, at `k` (non-negative) or `k + N` (negative) -/
theorem C04_fftfreq_surjective (N : ℕ) (k : ℤ) (hN : 0 < N) (hlo : -((N / 2 : ℕ) : ℤ) ≤ k)
    (hhi : k ≤ (((N - 1) / 2 : ℕ) : ℤ)) :
    ∃ i, i < N ∧ fftfreq N i = k := by
  by_cases hk : 0 ≤ k
  · refine ⟨k.toNat, by omega, ?_⟩
    unfold fftfreq; rw [if_pos (by omega)]; omega
  · refine ⟨(k + N).toNat, by omega, ?_⟩
    unfold fftfreq; rw [if_neg (by omega)]; omega

theorem C04_fftfreq_zero_iff (N i : ℕ) (hi : i < N) : fftfreq N i = 0 ↔ i = 0 := by
  unfold fftfreq; split <;> omega

theorem C04_fftfreq_nyquist (N : ℕ) (hN : 0 < N) (he : N % 2 = 0) : fftfreq N (N / 2) = -((N / 2 : ℕ) : ℤ) := by
  unfold fftfreq; rw [if_neg (by omega)]; omega

/-- last axis: `0 … N/2` -/
theorem C04_rfftfreq (N i : ℕ) : rfftfreq N i = (i : ℤ) := rfl

/-- the low-pass mask keeps exactly the modes with `|k_d| ≤ cutoff` on every axis -/
theorem C04_lowpass_iff (k : List ℤ) (c : ℤ) : lowPassSep k c 1 = true ↔ ∀ kd ∈ k, |kd| ≤ c := by
  simp [lowPassSep, absLe, Int.natCast_natAbs]

theorem C04_lowpass_rational_iff (k : List ℤ) (p q : ℤ) : lowPassSep k p q = true ↔ ∀ kd ∈ k, |kd| * q ≤ p := by
  simp [lowPassSep, absLe, Int.natCast_natAbs]

/-- the Nyquist ("oddball") mask: everything on odd grids, `|k_d| ≤ N/2 − 1` on even grids -/
theorem C04_oddball_iff (N : ℕ) (k : List ℤ) :
    oddball N k = true ↔ (N % 2 = 1 ∨ ∀ kd ∈ k, |kd| ≤ ((N / 2 : ℕ) : ℤ) - 1) := by
  unfold oddball
  split
  · simp_all
  · rw [C04_lowpass_iff]
    have : ¬ N % 2 = 1 := by assumption
    simp only [this, false_or]
    constructor <;> intro h kd hk <;> have := h kd hk <;> push_cast at * <;> omega

/-- grid: left-inclusive, right-exclusive, spacing `L/N` -/
theorem C04_grid (L : ℚ) (N j : ℕ) (hN : 0 < N) (hL : 0 < L) :
    gridCoord L N false j = (j : ℚ) * (L / N) ∧
    (j < N → 0 ≤ gridCoord L N false j ∧ gridCoord L N false j < L) ∧
    gridCoord L N false N = L ∧
    gridCoord L N false (j + 1) - gridCoord L N false j = L / N := by
  have hN' : (0 : ℚ) < N := by exact_mod_cast hN
  simp only [gridCoord, lit, Bool.false_eq_true, if_false]
  refine ⟨by ring, ?_, by field_simp, by push_cast; field_simp; ring⟩
  intro hj
  have hj' : (j : ℚ) < N := by exact_mod_cast hj
  constructor
  · positivity
  · rw [div_lt_iff₀ hN']; nlinarith

theorem C04_grid_len (N : ℕ) : gridLen N false = N ∧ gridLen N true = N + 1 := ⟨rfl, rfl⟩

theorem C04_grid_centered (L : ℚ) (N j : ℕ) :
    gridCoord L N true j = gridCoord L N false j - L / 2 := by
  simp [gridCoord, lit]

/-- scaling array, "norm compensation": `N` per axis, i.e. the `N^D` the inverse transform divides by -/
theorem C04_scaling_norm_axis (N : ℕ) (isLast : Bool) (k : ℤ) : (axisScale N 1 isLast k : ℚ) = N := by
  unfold axisScale; split <;> simp [lit]

/-- scaling entries: `N` at DC / Nyquist entries, `N / denom` elsewhere -/
theorem C04_scaling_axis (N denom : ℕ) (isLast : Bool) (k : ℤ) :
    (axisScale N denom isLast k : ℚ) = if isSpecial N isLast k then (N : ℚ) else (N : ℚ) / denom := by
  unfold axisScale; split <;> simp [lit]

/-- the three scaling arrays in closed form: `N^D / 2^(#axes that are halved)`; "norm compensation" is `N^D`
    (what the inverse transform divides by), "reconstruction" halves only non-DC/Nyquist last-axis columns,
    "coefficient extraction" halves every non-special axis -/
theorem C04_scaling_closed_form (D N mode : ℕ) (h : List ℕ) :
    (scaling D N mode h : ℚ) = (N : ℚ) ^ D / 2 ^ ((List.range D).countP (halved D N mode h)) :=
  scaling_eq_rat D N mode h

theorem C04_scaling_norm (D N : ℕ) (h : List ℕ) : (scaling D N 0 h : ℚ) = (N : ℚ) ^ D :=
  scaling_mode_zero_rat D N h

theorem C04_scaling_recon (D N : ℕ) (hD : 1 ≤ D) (h : List ℕ) :
    (scaling D N 1 h : ℚ) = if isSpecial N true (wn D N h (D - 1)) = true then (N : ℚ) ^ D else (N : ℚ) ^ D / 2 :=
  scaling_mode_one (K := ℚ) D N hD h

/-- the sphere mask keeps exactly `|k|₂ ≤ c` -/
theorem C04_sphere_iff (k : List ℤ) (c : ℤ) : lowPassSphere k c = true ↔ 0 ≤ c ∧ normSq k ≤ c ^ 2 :=
  lowPassSphere_iff_normSq k c

/-- every stored wavenumber is inside the band, and the even-grid Nyquist entry is stored at index `N/2` only -/
theorem C04_stored_band (D N : ℕ) (hD : 1 ≤ D) (hN : 0 < N) (i : ℕ) (hi : i < numModes D N) (k : ℤ)
    (hk : k ∈ wnFlat D N i) : |k| ≤ ((N / 2 : ℕ) : ℤ) :=
  mem_wnFlat_abs_le D N i hD hN hi k hk

/-- C-order flat index ↔ multi-index is a bijection on the stored range -/
theorem C04_flatten_unflatten (shape : List ℕ) (hpos : ∀ a ∈ shape, 0 < a) (i : ℕ) (hi : i < shapeSize shape) :
    flatten shape (unflatten shape i) = i :=
  flatten_unflatten shape hpos i hi

theorem C04_num_modes (D N : ℕ) : numModes D N = N ^ (D - 1) * (N / 2 + 1) := numModes_eq D N

/-- MODE SLICES: for every `D ≥ 1`, `N ≥ 2` each stored multi-index lies in exactly one block, and the block
    is the one named by the signs of its leading-axis wavenumbers (negative ⇒ right slice; the even-grid
    Nyquist row `−N/2` belongs to the negative block) -/
theorem C04_slices_partition (N : ℕ) (hN : 2 ≤ N) (hs : List ℕ) (hl : ℕ) (hhs : ∀ i ∈ hs, i < N)
    (hhl : hl < N / 2 + 1) :
    ∃! b, b ∈ modeBlocks (hs.length + 1) N ∧ inBlock b (hs ++ [hl]) = true :=
  modeBlocks_existsUnique N hN hs hl hhs hhl

theorem C04_slices_block (N : ℕ) (hN : 2 ≤ N) (hs : List ℕ) (hl : ℕ) (hhs : ∀ i ∈ hs, i < N)
    (hhl : hl < N / 2 + 1) (b : List (ℕ × ℕ)) :
    (b ∈ modeBlocks (hs.length + 1) N ∧ inBlock b (hs ++ [hl]) = true) ↔
      b = hs.map (fun i => signRange N (decide (fftfreq N i < 0))) ++ [(0, N / 2 + 1)] :=
  mem_modeBlocks_inBlock_iff N hN hs hl hhs hhl b

theorem C04_slices_count (D N : ℕ) : (modeBlocks D N).length = 2 ^ (D - 1) := modeBlocks_length D N

/-! ### transforms (`Transform.rfftnM` / `irfftnM` are the DFT sums `jnp.fft.rfftn/irfftn` compute; the
tie to the implementation — also on non-Hermitian input — is the numerical correspondence) -/

/-- ROUND TRIP: the inverse transform undoes the forward transform for every real state, every
    dimension `D ≥ 1`, every `N ≥ 1` (odd and even) -/
theorem C04_roundtrip (D N : ℕ) (hD : 0 < D) (hN : 0 < N) (x : ℕ → ℝ) :
    irfftnM D N (rfftnM D N (tab (N ^ D) (fun j => ((x j : ℝ) : ℂ)))) = tab (N ^ D) (fun j => ((x j : ℝ) : ℂ)) :=
  irfftn_rfftn_ofReal D N hD hN x

theorem C04_roundtrip_entry (D N : ℕ) (hD : 0 < D) (hN : 0 < N) (u : Array ℂ)
    (hu : ∀ j < N ^ D, (u.getD j 0).im = 0) (j : ℕ) (hj : j < N ^ D) :
    (irfftnM D N (rfftnM D N u)).getD j 0 = u.getD j 0 :=
  irfftn_rfftn D N hD hN u hu j hj

/-- SINGLE MODE (1-D): `a·cos(2πkx/L + φ)` sampled on the grid appears in exactly the stored mode `k`, with
    `(a/2)e^{iφ}·N` there (`a·cos φ·N` for the self-conjugate modes `k = 0`, `2k = N`) and `0` elsewhere -/
theorem C04_single_mode_1d (N : ℕ) (hN : 0 < N) (k h : ℕ) (hk : k ≤ N / 2) (hh : h ≤ N / 2) (a φ : ℝ) :
    (rfftnM 1 N (tab N (fun j => (((a * Real.cos (2 * Real.pi * k * j / N + φ)) : ℝ) : ℂ)))).getD h 0
      = if h = k then
          (if k = 0 ∨ 2 * k = N then (((a * Real.cos φ * N) : ℝ) : ℂ)
           else (a / 2 : ℂ) * Complex.exp (φ * Complex.I) * (N : ℂ))
        else 0 :=
  rfft_single_mode_1d N hN k h hk hh a φ

/-- stored coefficient `h` is the DFT sum over the grid with the phase `k(h)·j` named by the wavenumber array -/
theorem C04_rfftn_formula (D N : ℕ) (hN : 0 < N) (u : Array ℂ) (h : ℕ) (hh : h < numModes D N) :
    (rfftnM D N u).getD h 0 = ∑ j ∈ range (N ^ D), u.getD j 0 * twiddle N (phaseK D N (wnFlat D N h) j) :=
  rfftnM_getD D N hN u h hh

/-- Parseval in the half layout with the "reconstruction" weights (1 on the last-axis DC/Nyquist columns, else 2) -/
theorem C04_parseval (D N : ℕ) (hD : 0 < D) (hN : 0 < N) (u : Array ℂ) (hu : ∀ j < N ^ D, (u.getD j 0).im = 0) :
    ∑ j ∈ range (N ^ D), ‖u.getD j 0‖ ^ 2
      = (1 / ((N ^ D : ℕ) : ℝ)) * ∑ h ∈ range (numModes D N), (herm_weight D N h : ℝ) * ‖(rfftnM D N u).getD h 0‖ ^ 2 :=
  parseval_nd D N hD hN u hu

/-! non-vacuity / concrete layout -/
example : (List.range 6).map (fftfreq 6) = [0, 1, 2, -3, -2, -1] := by decide
example : (List.range 5).map (fftfreq 5) = [0, 1, 2, -2, -1] := by decide
example : wavenumberShape 3 6 = [6, 6, 4] := by decide

/-! ### n-D single-mode read-off (every D ≥ 1, every N, every wavenumber vector strictly below Nyquist — negative
leading entries, either sign of the last entry, the self-paired case) -/

/-- `a cos(2π κ·j/N + φ)` appears in exactly the stored mode(s) with wavenumber `κ` / `−κ` that the wavenumber array
    names, with value `(a/2) N^D e^{±iφ}`, and nowhere else -/
theorem C04_single_mode_nd (D N : ℕ) (hD : 0 < D) (hN : 0 < N) (κ : List ℤ) (hκ : ExactLinear.BelowNyquist D N κ)
    (a φ : ℝ) (h : ℕ) (hh : h < numModes D N) :
    (Transform.rfftnM D N (ExactLinear.modeField D N κ a φ)).getD h 0 =
      (if wnFlat D N h = κ then (a : ℂ) / 2 * ((N ^ D : ℕ) : ℂ) * Complex.exp ((φ : ℂ) * Complex.I) else 0) +
        if wnFlat D N h = ExactLinear.negK κ then (a : ℂ) / 2 * ((N ^ D : ℕ) : ℂ) * Complex.exp (-((φ : ℂ) * Complex.I))
        else 0 :=
  ExactLinear.rfftnM_modeField D N hD hN κ hκ a φ h hh

/-- the wavenumber array is injective on stored indices, the last entry is never negative, and a wavenumber vector
    below Nyquist with non-negative last entry is stored exactly once — its negative is stored iff the last entry is 0 -/
theorem C04_stored_modes (D N : ℕ) (hD : 0 < D) (hN : 0 < N) (κ : List ℤ) (hκ : ExactLinear.BelowNyquist D N κ)
    (hl : 0 ≤ κ.getD (D - 1) 0) :
    (∃! h, h < numModes D N ∧ wnFlat D N h = κ) ∧
      ((∃ h < numModes D N, wnFlat D N h = ExactLinear.negK κ) ↔ κ.getD (D - 1) 0 = 0) :=
  ⟨ExactLinear.stored_existsUnique D N hD hN κ hκ hl, ExactLinear.partner_stored_iff D N hD hN κ hκ hl⟩

/-! ### the layout helpers of `_spectral.py` / `_utils.py`, REGENERATED from their source on every run
(`Gen.SpectralLayout.*`, per array entry), equal the model functions every theorem above speaks about -/
open Exponax.Gen.SpectralLayout in
theorem C04_generated_layout (D N : ℕ) (hD : 1 ≤ D) (hN : 0 < N) (h : List ℕ) (p q : ℤ) (hq : 0 < q) :
    build_wavenumbers D N "ij" h = wnVec D N h ∧
    wavenumber_shape D N = wavenumberShape D N ∧
    low_pass_filter_mask D N ((p : ℚ) / (q : ℚ)) true "ij" h = lowPassSep (wnVec D N h) p q ∧
    oddball_filter_mask D N h = oddball N (wnVec D N h) ∧
    build_scaling_array D N "norm_compensation" "ij" h = some (scaling D N 0 h) ∧
    build_scaling_array D N "reconstruction" "ij" h = some (scaling D N 1 h) ∧
    build_scaling_array D N "coef_extraction" "ij" h = some (scaling D N 2 h) :=
  ⟨build_wavenumbers_ij D N hD hN h, wavenumber_shape_eq D N, low_pass_filter_mask_sep D N hD hN p q hq h,
   oddball_filter_mask_eq D N hD hN h, build_scaling_array_norm_compensation D N hD hN h,
   build_scaling_array_reconstruction D N hD hN h, build_scaling_array_coef_extraction D N hD hN h⟩

/-- `indexing="xy"` in 2-D swaps the two wavenumber components consistently with the transform (the repaired D2) -/
theorem C04_generated_xy (N : ℕ) (hN : 0 < N) (h : List ℕ) :
    Gen.SpectralLayout.build_wavenumbers 2 N "xy" h = [wn 2 N h 1, wn 2 N h 0] :=
  build_wavenumbers_xy_two N hN h

/-- regenerated mode slices resolve to the model's blocks; regenerated grid is left-inclusive / right-exclusive with
    spacing L/N; regenerated `wrap_bc` appends the periodic image -/
theorem C04_generated_slices_grid_wrap (D N : ℕ) {K : Type} [Field K] (L : K) (full zc : Bool) (idx : List ℕ)
    (u : List ℕ → K) (C c i : ℕ) (hN : 0 < N) (hc : c < C) :
    (Gen.SpectralLayout.get_modes_slices D N).map (fun b => (b.tail.zip (wavenumberShape D N)).map
        fun x => match x with | (s, len) => pySlice len s.1 s.2) = modeBlocks D N ∧
    Gen.SpectralLayout.make_grid D L N full zc "ij" idx = (List.range D).map (fun d => gridCoord L N zc (idx.getD d 0)) ∧
    Gen.SpectralLayout.wrap_bc u (C :: List.replicate D N) (c :: unflatten (List.replicate D (N + 1)) i) =
      u (c :: unflatten (List.replicate D N) (wrapSource D N i)) :=
  ⟨get_modes_slices_blocks D N, make_grid_ij D N L full zc idx, wrap_bc_eq u C D N c i hN hc⟩

/-- the list of translated functions is pinned: a new layout helper in the source breaks this until it is covered -/
theorem C04_generated_coverage : Gen.SpectralLayout.generated_functions.length = 15 := by
  rw [generated_functions_eq]; rfl

/-! ### `exponax.fft` / `exponax.ifft`, regenerated from `_spectral.py` on every run (axis selection, inference of the
omitted arguments), are the model transforms per channel; `ifft` without `num_points` can only infer it for D ≥ 2 -/
open Exponax.SpectralOpsEq in
theorem C04_generated_fft_ifft (C D N : ℕ) (hD : 1 ≤ D) (x : Nonlin.MC ℂ) :
    Gen.SpectralOps.fft [C] D N none x = some (Nonlin.tabC C (fun i => rfftnM D N (x.getD i #[]))) ∧
      Gen.SpectralOps.ifft [C] D N none (some N) x = some (Nonlin.tabC C (fun i => irfftnM D N (x.getD i #[]))) ∧
      Gen.SpectralOps.ifft [C] D N (some D) none x =
        (if 2 ≤ D then some (Nonlin.tabC C (fun i => irfftnM D N (x.getD i #[]))) else none) :=
  ⟨(fft_eq C D N hD x).2, (ifft_eq C D N hD x).2, ifft_infer_num_points C D N hD x⟩



/-! ### composed coefficient extraction: the regenerated `get_fourier_coefficients(..., "coef_extraction")` of the sampled
mode a·cos(κ·x + φ) is a·e^{iφ}·2^{n−1} at the stored index of κ (n = number of non-zero components of κ: exactly a·e^{iφ}
for axis-aligned waves, a·cos φ for κ = 0) and 0 at every other stored mode; the per-axis scaling product makes the factor
2^{n−1} for oblique waves (explicit 2-D instance) -/

open Exponax.SmallGaps in
theorem C04_coefficient_extraction_of_a_mode :
    ∀ [inst : Gen.SpectralOps.HasRoundTo ℂ] (D N : ℕ),
      1 ≤ D →
        0 < N →
          ∀ (κ : List ℤ),
            ExactLinear.BelowNyquist D N κ →
              ∀ (a φ : ℝ),
                Gen.SpectralOps.get_fourier_coefficients D N 1 (some "coef_extraction") none "ij"
                    #[ExactLinear.modeField D N κ a φ] =
                  some
                    (Nonlin.tab2 1 (Layout.numModes D N) fun x h ↦
                      (if Layout.wnFlat D N h = κ then ↑a / 2 * 2 ^ nzCount D κ * Complex.exp (↑φ * Complex.I) else 0) +
                        if Layout.wnFlat D N h = ExactLinear.negK κ then
                          ↑a / 2 * 2 ^ nzCount D κ * Complex.exp (-(↑φ * Complex.I))
                        else 0) :=
  @Exponax.SmallGaps.get_fourier_coefficients_modeField

open Exponax.SmallGaps in
theorem C04_coefficient_extraction_axis_aligned :
    ∀ [inst : Gen.SpectralOps.HasRoundTo ℂ] (D N : ℕ),
      1 ≤ D →
        0 < N →
          ∀ (κ : List ℤ),
            ExactLinear.BelowNyquist D N κ →
              nzCount D κ = 1 →
                ∀ (a φ : ℝ),
                  ∀ h < Layout.numModes D N,
                    Layout.wnFlat D N h = κ →
                      ∃ out,
                        Gen.SpectralOps.get_fourier_coefficients D N 1 (some "coef_extraction") none "ij"
                              #[ExactLinear.modeField D N κ a φ] =
                            some out ∧
                          Nonlin.at2 out 0 h = ↑a * Complex.exp (↑φ * Complex.I) :=
  @Exponax.SmallGaps.coef_extraction_axis_aligned

open Exponax.SmallGaps in
theorem C04_coefficient_extraction_oblique_factor :
    ∀ [inst : Gen.SpectralOps.HasRoundTo ℂ] (a φ : ℝ),
      ∃ out,
        Gen.SpectralOps.get_fourier_coefficients 2 8 1 (some "coef_extraction") none "ij"
              #[ExactLinear.modeField 2 8 [1, 1] a φ] =
            some out ∧
          Nonlin.at2 out 0 6 = 2 * (↑a * Complex.exp (↑φ * Complex.I)) :=
  @Exponax.SmallGaps.coef_extraction_oblique_2d



/-! ### indexing = "xy" for every D ≥ 2 (wavenumbers and grid swap their first two components, scaling arrays do not depend on the
indexing, the single-mode read-off holds on the xy grid with the xy wavenumber array), and the n-D read-off AT Nyquist
wavenumbers (stored representative `canonK`, self-conjugate modes carry a·cos φ) -/

open Exponax.SmallGaps2 in
theorem C04_xy_wavenumbers :
    ∀ (D N : ℕ),
      2 ≤ D →
        0 < N →
          ∀ (h : List ℕ),
            Gen.SpectralLayout.build_wavenumbers D N "xy" h = swap01 (Gen.SpectralLayout.build_wavenumbers D N "ij" h) ∧
              Gen.SpectralLayout.build_wavenumbers D N "xy" h = swap01 (Layout.wnVec D N h) ∧
                Gen.SpectralLayout.build_wavenumbers_shape D N "xy" = Gen.SpectralLayout.build_wavenumbers_shape D N "ij" :=
  @Exponax.SmallGaps2.build_wavenumbers_xy_swap

open Exponax.SmallGaps2 in
theorem C04_xy_grid :
    ∀ {K : Type} [inst : Field K] (D N : ℕ),
      2 ≤ D →
        ∀ (L : K) (full zc : Bool) (idx : List ℕ),
          Gen.SpectralLayout.make_grid D L N full zc "xy" idx =
              swap01 (Gen.SpectralLayout.make_grid D L N full zc "ij" idx) ∧
            Gen.SpectralLayout.make_grid D L N full zc "xy" idx =
                Gen.SpectralLayout.make_grid D L N full zc "ij" (swapIdx idx) ∧
              Gen.SpectralLayout.make_grid D L N full zc "xy" idx =
                List.map (fun d ↦ Layout.gridCoord L N zc (idx.getD (sw d) 0)) (List.range D) :=
  @Exponax.SmallGaps2.make_grid_xy_swap

open Exponax.SmallGaps2 in
theorem C04_xy_scaling_arrays :
    ∀ (D N : ℕ),
      1 ≤ D →
        0 < N →
          ∀ (mode : String) (h : List ℕ),
            Gen.SpectralLayout.build_scaling_array D N mode "xy" h = Gen.SpectralLayout.build_scaling_array D N mode "ij" h :=
  @Exponax.SmallGaps2.build_scaling_array_xy

open Exponax.SmallGaps2 in
theorem C04_single_mode_xy :
    ∀ (D N : ℕ),
      2 ≤ D →
        0 < N →
          ∀ (L : ℝ),
            L ≠ 0 →
              ∀ (κ : List ℤ),
                ExactLinear.BelowNyquist D N κ →
                  ∀ (a φ : ℝ),
                    ∀ h < Layout.numModes D N,
                      (Transform.rfftnM D N (sampledOnGrid D N L "xy" κ a φ)).getD h 0 =
                        (if
                              Gen.SpectralLayout.build_wavenumbers D N "xy"
                                  (Layout.unflatten (Layout.wavenumberShape D N) h) =
                                κ then
                            ↑a / 2 * ↑(N ^ D) * Complex.exp (↑φ * Complex.I)
                          else 0) +
                          if
                              Gen.SpectralLayout.build_wavenumbers D N "xy"
                                  (Layout.unflatten (Layout.wavenumberShape D N) h) =
                                ExactLinear.negK κ then
                            ↑a / 2 * ↑(N ^ D) * Complex.exp (-(↑φ * Complex.I))
                          else 0 :=
  @Exponax.SmallGaps2.single_mode_xy

open Exponax.SmallGaps2 in
theorem C04_single_mode_nyquist_nd :
    ∀ (D N : ℕ),
      0 < D →
        0 < N →
          ∀ (κ : List ℤ),
            AtMostNyquist D N κ →
              ∀ (a φ : ℝ),
                ∀ h < Layout.numModes D N,
                  (Transform.rfftnM D N (ExactLinear.modeField D N κ a φ)).getD h 0 =
                    (if Layout.wnFlat D N h = canonK D N κ then ↑a / 2 * ↑(N ^ D) * Complex.exp (↑φ * Complex.I) else 0) +
                      if Layout.wnFlat D N h = canonK D N (ExactLinear.negK κ) then
                        ↑a / 2 * ↑(N ^ D) * Complex.exp (-(↑φ * Complex.I))
                      else 0 :=
  @Exponax.SmallGaps2.rfftnM_modeField_nyquist

open Exponax.SmallGaps2 in
theorem C04_single_mode_self_conjugate_nd :
    ∀ (D N : ℕ),
      0 < D →
        0 < N →
          ∀ (κ : List ℤ),
            AtMostNyquist D N κ →
              SelfConj D N κ →
                ∀ (a φ : ℝ),
                  ∀ h < Layout.numModes D N,
                    (Transform.rfftnM D N (ExactLinear.modeField D N κ a φ)).getD h 0 =
                      if Layout.wnFlat D N h = canonK D N κ then ↑(a * Real.cos φ * ↑(N ^ D)) else 0 :=
  @Exponax.SmallGaps2.rfftnM_modeField_selfconj


end Exponax
