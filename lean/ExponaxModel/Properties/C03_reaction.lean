import ExponaxModel.Proofs.AliasMultiReaction
import ExponaxModel.Proofs.AliasMultiExamples
/-
C03 (continuation) — the reaction terms as DOCUMENTED CONTINUOUS OPERATORS (library `Proofs/AliasMultiReaction.lean`).

`C03_single_channel_and_cahn_hilliard_nd` and `C03_gray_scott_nd` (Properties/C03.lean) give the discrete alias-free forms
(linear convolutions of the band spectra).  Here the same outputs are identified with the Fourier coefficients of the
documented continuous operator applied to the CONTINUOUS band-truncated field `P_K u = PKfield c s x` (the trigonometric
polynomial that interpolates the model's `ifft(mask·û)`, `C03_dealiased_state_is_band_truncated_field`):

  * Cahn–Hilliard: `CahnHilliardNonlinearFun.__call__` returns `laplace · fft(u³) · scale`, `scale = ν·c₃`; documented
    `uₜ = ν Δ(c₃u³ + …)`: the operator is `opCH b u = b·Σ_d ∂_d ∂_d (u³)` (sign `+`, honest derivatives `pderiv`),
  * Gray–Scott: `f(1 − u) − u v²` (channel 0), `−(f + k) v + u v²` (channel 1): `opGS0`, `opGS1`.

Hypothesis `4·Kc < N`: the cut-off of the documented fraction 1/2 for cubic terms (`C03_cutoff_cubic`).  `HasCoeffs s L f A`
says `f` is the trigonometric polynomial of band `L` with coefficient family `A` (unique: `hasCoeffs_unique`); the model
returns `N^D·A(k(h))` on retained modes (`N^D`: un-normalised forward transform) and `0` on dropped modes.
-/
set_option linter.unusedVariables false
namespace Exponax
open Exponax.Alias Exponax.Nonlin Exponax.Layout
open Exponax.AliasMulti Exponax.AliasND

/-- Cahn–Hilliard `b·Δ(u³)`, every `D ≥ 1`, 1/2 rule (`4·Kc < N`), real scale `s = 2π/L`:
    (1) `opCH b (P_K u) = b·Σ_d ∂_d∂_d((P_K u)³)` is the trigonometric polynomial of band `3·Kc` with coefficient family
        `chCoef s Kc b (ucoef c x)`: `r ↦ b·Σ_d (i s r_d)²·Σ_{p+q+t=r} U_p U_q U_t`, `U = x̂/N^D` on the box;
    (2) on every retained stored mode the model term returns `N^D ×` that coefficient at `k(h)` — the band truncation of the
        spectrum of the continuous operator applied to the continuous band-truncated field, no aliasing contribution;
    (3) it returns `0` on every dropped mode. -/
theorem C03_cahn_hilliard_is_continuous_operator_nd (c : Cfg ℂ) (hD : 0 < c.D) (hq : c.fq ≠ 0)
    (hK : 4 * Kc c < (c.N : ℤ)) (hN : 0 < c.N) (s : ℝ) (hs : c.s = (s : ℂ)) (b : ℂ) (x : Array ℂ)
    (hx : IsRealND c.D c.N x) :
    HasCoeffs s (Kc c + Kc c + Kc c) (opCH b (PKfield c s x)) (chCoef s (Kc c) b (ucoef c x)) ∧
    ∀ h, h < numModes c.D c.N →
      (mask c h = 1 → at2 (cahnHilliard c b #[Transform.rfftnM c.D c.N x]) 0 h
          = ((c.N ^ c.D : ℕ) : ℂ) * chCoef s (Kc c) b (ucoef c x) (kvec c.D c.N h)) ∧
      (mask c h = 0 → at2 (cahnHilliard c b #[Transform.rfftnM c.D c.N x]) 0 h = 0) :=
  cahnHilliard_continuous_nd c hD hq hK hN s hs b x hx

/-- the two derivatives inside `opCH` are honest derivatives of differentiable functions: along every coordinate `d`,
    `t ↦ u³` has derivative `pderiv d (u³)` and `t ↦ pderiv d (u³)` has derivative `pderiv d (pderiv d (u³))`, for `u` the
    continuous band-truncated field -/
theorem C03_cahn_hilliard_derivatives_are_honest (c : Cfg ℂ) (s : ℝ) (x : Array ℂ) (d : Fin c.D) (ξ : Fin c.D → ℝ) :
    HasDerivAt (fun t : ℝ => (fun η => PKfield c s x η * PKfield c s x η * PKfield c s x η) (Function.update ξ d t))
      (pderiv d (fun η => PKfield c s x η * PKfield c s x η * PKfield c s x η) ξ) (ξ d) ∧
    HasDerivAt (fun t : ℝ => pderiv d (fun η => PKfield c s x η * PKfield c s x η * PKfield c s x η)
        (Function.update ξ d t))
      (pderiv d (pderiv d (fun η => PKfield c s x η * PKfield c s x η * PKfield c s x η)) ξ) (ξ d) :=
  opCH_derivs (PKfield_hasCoeffs c s x) d ξ

/-- the Cahn–Hilliard coefficient "computed without any aliasing error": sampling the continuous operator applied to the
    continuous band-truncated field on ANY finer grid `M > 4·Kc` and transforming gives (up to the normalisations
    `N^D / M^D`) exactly what the model returns on the retained modes -/
theorem C03_cahn_hilliard_fine_grid (c : Cfg ℂ) (hD : 0 < c.D) (hq : c.fq ≠ 0)
    (hK : 4 * Kc c < (c.N : ℤ)) (hN : 0 < c.N) (s : ℝ) (hs : c.s = (s : ℂ)) (hs0 : s ≠ 0) (b : ℂ) (x : Array ℂ)
    (hx : IsRealND c.D c.N x) (M : ℕ) (hM : 4 * Kc c < (M : ℤ)) (h : ℕ) (hh : h < numModes c.D c.N)
    (hm : mask c h = 1) :
    at2 (cahnHilliard c b #[Transform.rfftnM c.D c.N x]) 0 h
      = ((c.N ^ c.D : ℕ) : ℂ) / ((M ^ c.D : ℕ) : ℂ) *
          dftV c.D M (Transform.tab (M ^ c.D) fun j => opCH b (PKfield c s x) (gridPt s c.D M j))
            (kvec c.D c.N h) :=
  cahnHilliard_fine_grid c hD hq hK hN s hs hs0 b x hx M hM h hh hm

/-- Gray–Scott reaction, every `D ≥ 1`, 1/2 rule (`4·Kc < N`), per channel.  With `u_K = PKfield c s xa`,
    `v_K = PKfield c s xb` the continuous band-truncated species:
    (1) `opGS0 f u_K v_K = f(1 − u_K) − u_K v_K²` and `opGS1 f k u_K v_K = −(f + k) v_K + u_K v_K²` are trigonometric
        polynomials of band `3·Kc` with coefficient families `gs0Coef`, `gs1Coef` (affine part exactly, cubic part the
        triple linear convolution `conv3 Kc U V V`);
    (2) on every retained stored mode, channel 0 / channel 1 of the model term is `N^D ×` the respective coefficient at
        `k(h)`;  (3) both channels are `0` on every dropped mode. -/
theorem C03_gray_scott_is_continuous_operator_nd (c : Cfg ℂ) (hD : 0 < c.D) (hq : c.fq ≠ 0)
    (hK : 4 * Kc c < (c.N : ℤ)) (hN : 0 < c.N) (s : ℝ) (feed kill : ℂ) (xa xb : Array ℂ)
    (hxa : IsRealND c.D c.N xa) (hxb : IsRealND c.D c.N xb) :
    (0 ≤ Kc c →
      HasCoeffs s (Kc c + Kc c + Kc c) (opGS0 feed (PKfield c s xa) (PKfield c s xb))
        (gs0Coef (Kc c) feed (ucoef c xa) (ucoef c xb)) ∧
      HasCoeffs s (Kc c + Kc c + Kc c) (opGS1 feed kill (PKfield c s xa) (PKfield c s xb))
        (gs1Coef (Kc c) feed kill (ucoef c xa) (ucoef c xb))) ∧
    ∀ h, h < numModes c.D c.N →
      (mask c h = 1 →
        at2 (reaction c 2 (grayScottReact feed kill)
            #[Transform.rfftnM c.D c.N xa, Transform.rfftnM c.D c.N xb]) 0 h
          = ((c.N ^ c.D : ℕ) : ℂ) * gs0Coef (Kc c) feed (ucoef c xa) (ucoef c xb) (kvec c.D c.N h) ∧
        at2 (reaction c 2 (grayScottReact feed kill)
            #[Transform.rfftnM c.D c.N xa, Transform.rfftnM c.D c.N xb]) 1 h
          = ((c.N ^ c.D : ℕ) : ℂ) * gs1Coef (Kc c) feed kill (ucoef c xa) (ucoef c xb) (kvec c.D c.N h)) ∧
      (mask c h = 0 →
        at2 (reaction c 2 (grayScottReact feed kill)
            #[Transform.rfftnM c.D c.N xa, Transform.rfftnM c.D c.N xb]) 0 h = 0 ∧
        at2 (reaction c 2 (grayScottReact feed kill)
            #[Transform.rfftnM c.D c.N xa, Transform.rfftnM c.D c.N xb]) 1 h = 0) :=
  grayScott_continuous_nd c hD hq hK hN s feed kill xa xb hxa hxb

/-- the Gray–Scott coefficients computed on ANY finer grid `M > 4·Kc` (both channels) -/
theorem C03_gray_scott_fine_grid (c : Cfg ℂ) (hD : 0 < c.D) (hq : c.fq ≠ 0)
    (hK : 4 * Kc c < (c.N : ℤ)) (hN : 0 < c.N) (s : ℝ) (hs0 : s ≠ 0) (feed kill : ℂ) (xa xb : Array ℂ)
    (hxa : IsRealND c.D c.N xa) (hxb : IsRealND c.D c.N xb) (M : ℕ) (hM : 4 * Kc c < (M : ℤ)) (h : ℕ)
    (hh : h < numModes c.D c.N) (hm : mask c h = 1) :
    at2 (reaction c 2 (grayScottReact feed kill) #[Transform.rfftnM c.D c.N xa, Transform.rfftnM c.D c.N xb]) 0 h
      = ((c.N ^ c.D : ℕ) : ℂ) / ((M ^ c.D : ℕ) : ℂ) *
          dftV c.D M (Transform.tab (M ^ c.D) fun j =>
            opGS0 feed (PKfield c s xa) (PKfield c s xb) (gridPt s c.D M j)) (kvec c.D c.N h) ∧
    at2 (reaction c 2 (grayScottReact feed kill) #[Transform.rfftnM c.D c.N xa, Transform.rfftnM c.D c.N xb]) 1 h
      = ((c.N ^ c.D : ℕ) : ℂ) / ((M ^ c.D : ℕ) : ℂ) *
          dftV c.D M (Transform.tab (M ^ c.D) fun j =>
            opGS1 feed kill (PKfield c s xa) (PKfield c s xb) (gridPt s c.D M j)) (kvec c.D c.N h) :=
  grayScott_fine_grid c hD hq hK hN s hs0 feed kill xa xb hxa hxb M hM h hh hm

/-! ### non-vacuity: the hypotheses are satisfiable (fraction 1/2, `N = 8`, `Kc = 1`, `D = 2`, two different real species,
a retained non-mean mode, a dropped mode, a finer grid), and the theorems instantiated at the witness -/

example : ∃ (c : Cfg ℂ) (s : ℝ) (xa xb : Array ℂ) (M h h' : ℕ),
    0 < c.D ∧ c.fq ≠ 0 ∧ c.fp = 1 ∧ c.fq = 2 ∧ 4 * Kc c < (c.N : ℤ) ∧ 0 < c.N ∧ c.s = (s : ℂ) ∧ s ≠ 0 ∧ 0 ≤ Kc c ∧
    IsRealND c.D c.N xa ∧ IsRealND c.D c.N xb ∧ 4 * Kc c < (M : ℤ) ∧ c.N < M ∧
    h < numModes c.D c.N ∧ mask c h = 1 ∧ h ≠ 0 ∧ h' < numModes c.D c.N ∧ mask c h' = 0 :=
  ⟨cfg12 2, 1, ramp (8 ^ 2), Transform.tab (8 ^ 2) (fun _ => (1 : ℂ)), 32, 1, 2, by decide, by decide, rfl, rfl,
    by decide, by decide, cfg12_s 2, one_ne_zero, by decide, ramp_real 2 8, const_real 2 8, by decide, by decide,
    by decide, by
      rw [mask_nd_eq_one_iff _ (by decide)]
      decide, by decide, by decide, by
      unfold mask
      rw [if_neg (by decide), if_neg (by decide)]⟩

example (b : ℂ) :=
  C03_cahn_hilliard_is_continuous_operator_nd (cfg12 3) (by decide) (by decide) (by decide) (by decide) 1 (cfg12_s 3) b _
    (ramp_real 3 8)

example (feed kill : ℂ) :=
  C03_gray_scott_is_continuous_operator_nd (cfg12 2) (by decide) (by decide) (by decide) (by decide) 1 feed kill _ _
    (ramp_real 2 8) (const_real 2 8)

example (b : ℂ) (h : ℕ) (hh : h < numModes 2 8) (hm : mask (cfg12 2) h = 1) :=
  C03_cahn_hilliard_fine_grid (cfg12 2) (by decide) (by decide) (by decide) (by decide) 1 (cfg12_s 2) one_ne_zero b _
    (ramp_real 2 8) 32 (by decide) h hh hm

end Exponax
