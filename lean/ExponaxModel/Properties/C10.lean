import ExponaxModel.Proofs.LerayAlgebra
import ExponaxModel.Generated.Etdrk
import ExponaxModel.Proofs.NonlinFunsEq
import ExponaxModel.Proofs.SpectralOpsEq
/-
C10 — incompressibility is enforced and preserved.

`Nonlin.leray`, `Nonlin.projected3d` are the hand-written mirrors of
`nonlin_fun/_leray.py`, `_projected_convection.py` (tied by the correspondence);
`Gen.Misc.cross_product_3d` and `Gen.Etdrk.E?step` are regenerated from the source.
`c.s = 2π/L` is real and non-zero; `h` ranges over every stored Fourier mode.
-/
set_option linter.unusedVariables false
namespace Exponax
open Exponax.Nonlin Exponax.Gen.Etdrk

/-- the Leray projection returns a field with zero spectral divergence, at every stored mode -/
theorem C10_leray_divfree (c : Cfg ℂ) (s : ℝ) (hs : c.s = (s : ℂ)) (hs0 : s ≠ 0) (uh : MC ℂ) (h : ℕ)
    (hh : h < modes c) :
    sumList ((List.range c.D).map (fun d => deriv c d h * at2 (leray c uh) d h)) = 0 :=
  leray_div_free c s hs hs0 uh h hh

/-- it is idempotent -/
theorem C10_leray_idem (c : Cfg ℂ) (s : ℝ) (hs : c.s = (s : ℂ)) (hs0 : s ≠ 0) (uh : MC ℂ) :
    leray c (leray c uh) = leray c uh :=
  leray_idempotent c s hs hs0 uh

/-- and leaves divergence-free fields unchanged -/
theorem C10_leray_id_on_divfree (c : Cfg ℂ) (uh : MC ℂ) (h : ℕ) (hh : h < modes c)
    (hdiv : sumList ((List.range c.D).map (fun d => deriv c d h * at2 uh d h)) = 0) (d : ℕ) (hd : d < c.D) :
    at2 (leray c uh) d h = at2 uh d h :=
  leray_id_of_div_free c uh h hh hdiv d hd

/-- the projection is a per-mode matrix `δ_de − d_d d_e / Δ̂` acting on the channel vector -/
theorem C10_leray_matrix (c : Cfg ℂ) (uh : MC ℂ) (d h : ℕ) (hd : d < c.D) (hh : h < modes c) :
    at2 (leray c uh) d h
      = ∑ e ∈ Finset.range c.D, ((if d = e then 1 else 0) - deriv c d h * invLapZero c h * deriv c e h) * at2 uh e h :=
  at2_leray_matrix c uh d h hd hh

/-- the 3-D rotational convection term is divergence-free for every input, with and without the
    Kolmogorov injection -/
theorem C10_proj3d_divfree (c : Cfg ℂ) (s : ℝ) (hs : c.s = (s : ℂ)) (hs0 : s ≠ 0) (hD : c.D ≤ 3)
    (inj : Option (ℕ × ℂ)) (uh : MC ℂ) (h : ℕ) (hh : h < modes c) :
    sumList ((List.range c.D).map (fun d => deriv c d h * at2 (projected3d c inj uh) d h)) = 0 :=
  projected3d_div_free c s hs hs0 hD inj uh h hh

/-- the curl is divergence free (regenerated cross product) -/
theorem C10_div_curl (c : Cfg ℂ) (hD : c.D = 3) (h : ℕ) (u : ℂ × ℂ × ℂ) :
    vecDiv c h (proj3 (Gen.Misc.cross_product_3d (deriv c 0 h, deriv c 1 h, deriv c 2 h) u)) = 0 :=
  curl_div_free c hD h u

/-! ### preservation by the ETDRK steppers

A spectrum is `U : mode → channel → ℂ`; the linear symbol of the velocity steppers is the same for
all channels, so every ETDRK coefficient array is of the form `fun h _ => e h`.  `N` is *any* map whose
output is divergence-free at every mode (C10_proj3d_divfree).  The statements are about the
regenerated stage formulas `Gen.Etdrk.E?step` at `V := ℕ → ℕ → ℂ`. -/

/-- divergence-free spectra at mode `h` form a submodule: closed under the per-mode combination
    `a·u + b·v` -/
theorem divfree_comb (c : Cfg ℂ) (h : ℕ) (a b : ℂ) (u v : ℕ → ℂ) (hu : vecDiv c h u = 0) (hv : vecDiv c h v = 0) :
    vecDiv c h (fun d => a * u d + b * v d) = 0 := by
  rw [vecDiv_add, vecDiv_smul, vecDiv_smul, hu, hv]; ring

def DivFree (c : Cfg ℂ) (U : ℕ → ℕ → ℂ) : Prop := ∀ h, vecDiv c h (U h) = 0

theorem DivFree.add {c : Cfg ℂ} {U V : ℕ → ℕ → ℂ} (hU : DivFree c U) (hV : DivFree c V) : DivFree c (U + V) := by
  intro h
  have e : ((U + V) h) = (fun d => 1 * U h d + 1 * V h d) := by funext d; simp
  rw [e]; exact divfree_comb c h 1 1 _ _ (hU h) (hV h)

theorem DivFree.sub {c : Cfg ℂ} {U V : ℕ → ℕ → ℂ} (hU : DivFree c U) (hV : DivFree c V) : DivFree c (U - V) := by
  intro h
  have e : ((U - V) h) = (fun d => 1 * U h d + (-1) * V h d) := by funext d; simp [sub_eq_add_neg]
  rw [e]; exact divfree_comb c h 1 (-1) _ _ (hU h) (hV h)

/-- multiplication by a coefficient array shared by all channels -/
theorem DivFree.smul {c : Cfg ℂ} {U : ℕ → ℕ → ℂ} (e : ℕ → ℂ) (hU : DivFree c U) :
    DivFree c ((fun (h : ℕ) (_ : ℕ) => e h) * U) := by
  intro h
  have : (((fun (h : ℕ) (_ : ℕ) => e h) * U) h) = (fun d => e h * U h d) := by funext d; rfl
  rw [this, vecDiv_smul, hU h, mul_zero]

theorem DivFree.natCast_mul {c : Cfg ℂ} {U : ℕ → ℕ → ℂ} (n : ℕ) (hU : DivFree c U) :
    DivFree c ((n : ℕ → ℕ → ℂ) * U) := by
  intro h
  have : (((n : ℕ → ℕ → ℂ) * U) h) = (fun d => (n : ℂ) * U h d) := by funext d; rfl
  rw [this, vecDiv_smul, hU h, mul_zero]

/-- every ETDRK order maps divergence-free spectra to divergence-free spectra -/
theorem C10_step_preserves (c : Cfg ℂ) (e eh a1 a2 a3 a4 a5 a6 : ℕ → ℂ) (N : (ℕ → ℕ → ℂ) → (ℕ → ℕ → ℂ))
    (hN : ∀ V, DivFree c (N V)) (U : ℕ → ℕ → ℂ) (hU : DivFree c U) :
    let b := fun (x : ℕ → ℂ) => (fun h (_ : ℕ) => x h)
    DivFree c (E0step (b e) U) ∧
    DivFree c (E1step (b e) (b a1) N U) ∧
    DivFree c (E2step (b e) (b a1) (b a2) N U) ∧
    DivFree c (E3step (b e) (b eh) (b a1) (b a2) (b a3) (b a4) (b a5) N U) ∧
    DivFree c (E4step (b e) (b eh) (b a1) (b a2) (b a3) (b a4) (b a5) (b a6) N U) := by
  intro b
  have S := fun (x : ℕ → ℂ) (V : ℕ → ℕ → ℂ) (hV : DivFree c V) => DivFree.smul (c := c) x hV
  have two : ∀ V, DivFree c V → DivFree c ((lit 2 : ℕ → ℕ → ℂ) * V) := fun V hV => DivFree.natCast_mul 2 hV
  refine ⟨S e U hU, ?_, ?_, ?_, ?_⟩
  · exact (S e U hU).add (S a1 _ (hN _))
  · simp only [E2step]
    exact ((S e U hU).add (S a1 _ (hN _))).add (S a2 _ ((hN _).sub (hN _)))
  · simp only [E3step]
    exact (((S e U hU).add (S a3 _ (hN _))).add (S a4 _ (hN _))).add (S a5 _ (hN _))
  · simp only [E4step]
    refine (((S e U hU).add (S a4 _ (hN _))).add ?_).add (S a6 _ (hN _))
    have : b a5 * lit 2 * (N (b eh * U + b a1 * N U) + N (b eh * U + b a2 * N (b eh * U + b a1 * N U)))
        = b a5 * ((lit 2 : ℕ → ℕ → ℂ) * (N (b eh * U + b a1 * N U) + N (b eh * U + b a2 * N (b eh * U + b a1 * N U)))) := by
      ring
    rw [this]
    exact S a5 _ (two _ ((hN _).add (hN _)))

/-- … hence over any number of steps (rollout of any length) -/
theorem C10_rollout_preserves (c : Cfg ℂ) (step : (ℕ → ℕ → ℂ) → (ℕ → ℕ → ℂ))
    (hstep : ∀ U, DivFree c U → DivFree c (step U)) (n : ℕ) (U : ℕ → ℕ → ℂ) (hU : DivFree c U) :
    DivFree c (step^[n] U) := by
  induction n generalizing U with
  | zero => exact hU
  | succ n ih => rw [Function.iterate_succ_apply]; exact ih _ (hstep U hU)

/-! non-vacuity: a configuration and a non-trivial divergence-free vector at a non-zero mode -/
example : ∃ c : Cfg ℂ, ∃ s : ℝ, c.s = (s : ℂ) ∧ s ≠ 0 ∧ c.D ≤ 3 ∧ 0 < modes c :=
  ⟨{ D := 3, N := 4, s := ((1 : ℝ) : ℂ), fp := 2, fq := 3 }, 1, rfl, one_ne_zero, by decide, by decide⟩

/-! ### the projection and the rotational term as REGENERATED from `nonlin_fun/_leray.py` and
`_projected_convection.py` are the model functions the theorems above are about -/
theorem C10_generated_projection (c : Nonlin.Cfg ℂ) (uh : Nonlin.MC ℂ) (m : ℕ) (gam : ℂ) :
    Gen.NonlinFuns.Leray_call c 2 uh = Nonlin.leray c uh ∧
    (c.D = 3 → Gen.NonlinFuns.ProjectedConvection3d_call c uh = Nonlin.projected3d c none uh) ∧
    (c.D = 3 → 0 < m →
      Gen.NonlinFuns.ProjectedConvection3dKolmogorov_call c m gam uh = Nonlin.projected3d c (some (m, gam)) uh) :=
  ⟨NonlinFunsEq.Leray_call_eq c uh, fun h => NonlinFunsEq.ProjectedConvection3d_call_eq c h uh,
   fun h hm => NonlinFunsEq.ProjectedConvection3dKolmogorov_call_eq c h m hm gam uh⟩

/-! ### `exponax.make_incompressible`, regenerated from `_spectral.py` on every run, is the Leray projection of the
theorems above between the model transforms -/
open Exponax.SpectralOpsEq in
theorem C10_generated_make_incompressible (D N : ℕ) (hD : 1 ≤ D) (hN : 0 < N) (field : MC ℂ) :
    Gen.SpectralOps.make_incompressible D N D "ij" field =
      tabC D (fun i => Transform.irfftnM D N
        ((leray (cfg D N 1) (tabC D (fun j => Transform.rfftnM D N (field.getD j #[])))).getD i #[])) :=
  make_incompressible_eq D N hD hN field


end Exponax
