import ExponaxModel.Properties.C02
import ExponaxModel.Proofs.LinearTestOrderConst
import ExponaxModel.Proofs.LinearTestOrderSharp
import ExponaxModel.Proofs.LinearTestOrderNonlinearVec
import ExponaxModel.Proofs.LinearTestOrderNonlinear2Vec
import ExponaxModel.Proofs.LinearTestOrderStored
import ExponaxModel.Proofs.LinearTestOrderNonlinear3Vec
import ExponaxModel.Proofs.LinearTestOrderNonlinear4Vec
/-
C02 (continued) — ORDER of the schemes ("… and the error decays like dt^p").  Separate file because the order
library builds on `Properties/C02.lean` (the regenerated steps ARE the Cox–Matthews schemes; no import cycle);
audited together with it.

Full statement (`C02_global_order`): for u' = Lu + N(u) with a sufficiently smooth nonlinear N, n steps of ETDRKp with
dt = T/n differ from the exact solution at time T by at most C·dt^p, C independent of n (and, for the stiff order, of
‖L‖).  PROVED HERE, hence named `_partial`:
  * p = 1, 2, 3, 4 on the linear test family N(u) = μu, every λ, μ ∈ ℂ (λ = 0 and tiny λ·dt included — the
    coefficients are written with the entire φ functions), explicit constants, and the order is EXACTLY p;
  * p = 1 and p = 2 for every globally Lipschitz nonlinear N : ℂⁿ → ℂⁿ with diagonal L (p = 2: t ↦ N(u(t)) with a
    Lipschitz derivative along the exact solution), with constants that depend on the spectrum only through
    ω ≥ max(0, sup Re λ_k) — i.e. uniformly in the stiffness;
  * on the linear test family the same holds for PERTURBED coefficients up to a consistency floor proportional to the
    perturbation, and hence for the STORED contour coefficients (defaults M = 16, r = 1, real λ ≤ 0, δ = 5e-8).
  * p = 3 and p = 4 for genuinely nonlinear N (systems with diagonal L, sup norm) in the CLASSICAL sense: local error ≤ C h^{p+1},
    global error ≤ C dt^p with explicit constants that may depend on sup|λ_k| (`C02_global_order_etdrk3_nonlinear`,
    `C02_global_order_etdrk4_nonlinear`), under a Taylor hypothesis on t ↦ N(u(t)) and a linearisation N'(u τ) of N along the
    solution with quadratic remainder.
MISSING: stiffness-uniform constants for p = 3, 4 (the stiff order of ETDRK3/4 is lower in general: Hochbruck–Ostermann), and
the nonlinear results for the stored rather than the exact coefficients.
-/
set_option linter.unusedVariables false
namespace Exponax
open Exponax.Gen.Etdrk Exponax.LinearOrder Exponax.ContourTail

/-! ### what is iterated: the REGENERATED step functions with the exact coefficients and N(v) = μ v -/

theorem C02_order_subject (l m : ℂ) (dt : ℝ) :
    E1lin l m dt = E1step (Complex.exp (l * dt)) (dt * phi1e (l * dt)) (fun v => m * v) ∧
    E2lin l m dt = E2step (Complex.exp (l * dt)) (dt * phi1e (l * dt)) (dt * phi2e (l * dt)) (fun v => m * v) ∧
    E3lin l m dt = E3step (Complex.exp (l * dt)) (Complex.exp (l * dt / 2)) (dt * (phi1e (l * dt / 2) / 2))
        (dt * phi1e (l * dt)) (dt * (phi1e (l * dt) - 3 * phi2e (l * dt) + 4 * phi3e (l * dt)))
        (dt * (4 * phi2e (l * dt) - 8 * phi3e (l * dt))) (dt * (4 * phi3e (l * dt) - phi2e (l * dt))) (fun v => m * v) ∧
    E4lin l m dt = E4step (Complex.exp (l * dt)) (Complex.exp (l * dt / 2)) (dt * (phi1e (l * dt / 2) / 2))
        (dt * (phi1e (l * dt / 2) / 2)) (dt * (phi1e (l * dt / 2) / 2))
        (dt * (phi1e (l * dt) - 3 * phi2e (l * dt) + 4 * phi3e (l * dt))) (dt * (phi2e (l * dt) - 2 * phi3e (l * dt)))
        (dt * (4 * phi3e (l * dt) - phi2e (l * dt))) (fun v => m * v) :=
  ⟨rfl, rfl, rfl, rfl⟩

/-- one step is multiplication by an explicit amplification factor `R_p(λdt, μdt)` … -/
theorem C02_amplification_factor (l m : ℂ) (dt : ℝ) (u : ℂ) :
    E1lin l m dt u = R1 (l * dt) (m * dt) * u ∧ E2lin l m dt u = R2 (l * dt) (m * dt) * u ∧
      E3lin l m dt u = R3 (l * dt) (m * dt) * u ∧ E4lin l m dt u = R4 (l * dt) (m * dt) * u :=
  ⟨E1lin_apply l m dt u, E2lin_apply l m dt u, E3lin_apply l m dt u, E4lin_apply l m dt u⟩

/-- … which for λ = 0 is the classical Runge–Kutta stability polynomial, and for μ = 0 the exact propagator -/
theorem C02_amplification_limits (z w : ℂ) :
    (R1 0 w = 1 + w ∧ R2 0 w = 1 + w + w ^ 2 / 2 ∧ R3 0 w = 1 + w + w ^ 2 / 2 + w ^ 3 / 6 ∧
      R4 0 w = 1 + w + w ^ 2 / 2 + w ^ 3 / 6 + w ^ 4 / 24) ∧
    (R1 z 0 = Complex.exp z ∧ R2 z 0 = Complex.exp z ∧ R3 z 0 = Complex.exp z ∧ R4 z 0 = Complex.exp z) :=
  ⟨R_at_zero w, R_no_nonlinearity z⟩

/-! ### local and global order p on the linear test family, explicit constants -/

/-- local error ≤ C t^{p+1} on [0, T], C explicit in ‖λ‖, ‖μ‖, T -/
theorem C02_local_order_partial (l m : ℂ) (T t : ℝ) (h0 : 0 ≤ t) (hT : t ≤ T) :
    ‖R1 (l * t) (m * t) - Complex.exp ((l + m) * t)‖ ≤ Cloc1 l m T * t ^ 2 ∧
    ‖R2 (l * t) (m * t) - Complex.exp ((l + m) * t)‖ ≤ Cloc2 l m T * t ^ 3 ∧
    ‖R3 (l * t) (m * t) - Complex.exp ((l + m) * t)‖ ≤ Cloc3 l m T * t ^ 4 ∧
    ‖R4 (l * t) (m * t) - Complex.exp ((l + m) * t)‖ ≤ Cloc4 l m T * t ^ 5 :=
  ⟨R1_local_order_explicit l m T t h0 hT, R2_local_order_explicit l m T t h0 hT,
   R3_local_order_explicit l m T t h0 hT, R4_local_order_explicit l m T t h0 hT⟩

/-- GLOBAL ORDER p: n steps of size dt with n·dt ≤ T stay within C'·dt^p·‖u‖ of the exact solution
    e^{(λ+μ) n dt} u, with C' = C_loc·T·exp((‖λ+μ‖ + C_loc T^p) T) independent of n and dt -/
theorem C02_global_order_partial (l m : ℂ) (T : ℝ) (hT : 0 ≤ T) (n : ℕ) (dt : ℝ) (u : ℂ) (hdt : 0 ≤ dt)
    (hn : n * dt ≤ T) :
    ‖(E1lin l m dt)^[n] u - Complex.exp ((l + m) * (n * dt)) * u‖ ≤ Cglob (Cloc1 l m T) (l + m) 1 T * dt ^ 1 * ‖u‖ ∧
    ‖(E2lin l m dt)^[n] u - Complex.exp ((l + m) * (n * dt)) * u‖ ≤ Cglob (Cloc2 l m T) (l + m) 2 T * dt ^ 2 * ‖u‖ ∧
    ‖(E3lin l m dt)^[n] u - Complex.exp ((l + m) * (n * dt)) * u‖ ≤ Cglob (Cloc3 l m T) (l + m) 3 T * dt ^ 3 * ‖u‖ ∧
    ‖(E4lin l m dt)^[n] u - Complex.exp ((l + m) * (n * dt)) * u‖ ≤ Cglob (Cloc4 l m T) (l + m) 4 T * dt ^ 4 * ‖u‖ :=
  ⟨E1step_global_order_explicit l m T hT n dt u hdt hn, E2step_global_order_explicit l m T hT n dt u hdt hn,
   E3step_global_order_explicit l m T hT n dt u hdt hn, E4step_global_order_explicit l m T hT n dt u hdt hn⟩

/-- the form a convergence study reads: T fixed, n steps of T/n, error ≤ C'·(T/n)^p -/
theorem C02_convergence_rate_partial (l m : ℂ) (T : ℝ) (hT : 0 ≤ T) :
    (∃ C', 0 ≤ C' ∧ ∀ (n : ℕ) (u : ℂ), 1 ≤ n →
        ‖(E1lin l m (T / n))^[n] u - Complex.exp ((l + m) * T) * u‖ ≤ C' * (T / n) ^ 1 * ‖u‖) ∧
    (∃ C', 0 ≤ C' ∧ ∀ (n : ℕ) (u : ℂ), 1 ≤ n →
        ‖(E2lin l m (T / n))^[n] u - Complex.exp ((l + m) * T) * u‖ ≤ C' * (T / n) ^ 2 * ‖u‖) ∧
    (∃ C', 0 ≤ C' ∧ ∀ (n : ℕ) (u : ℂ), 1 ≤ n →
        ‖(E3lin l m (T / n))^[n] u - Complex.exp ((l + m) * T) * u‖ ≤ C' * (T / n) ^ 3 * ‖u‖) ∧
    (∃ C', 0 ≤ C' ∧ ∀ (n : ℕ) (u : ℂ), 1 ≤ n →
        ‖(E4lin l m (T / n))^[n] u - Complex.exp ((l + m) * T) * u‖ ≤ C' * (T / n) ^ 4 * ‖u‖) :=
  ⟨E1step_global_order_uniform l m T hT, E2step_global_order_uniform l m T hT,
   E3step_global_order_uniform l m T hT, E4step_global_order_uniform l m T hT⟩

/-! ### the order is exactly p, and a wrong coefficient destroys it (the theorems above would notice) -/

/-- leading error constants: (R_p − e^{(λ+μ)t})/t^{p+1} → L_p(λ, μ) -/
theorem C02_error_constants (l m : ℂ) :
    Filter.Tendsto (fun t : ℝ => (R1 (l * t) (m * t) - Complex.exp ((l + m) * t)) / (t : ℂ) ^ 2) (nhdsWithin 0 {0}ᶜ)
        (nhds (-m * (l + m) / 2)) ∧
    Filter.Tendsto (fun t : ℝ => (R4 (l * t) (m * t) - Complex.exp ((l + m) * t)) / (t : ℂ) ^ 5) (nhdsWithin 0 {0}ᶜ)
        (nhds (L4 l m)) := by
  refine ⟨?_, R4_error_constant l m⟩
  have h := R1_error_constant l m
  simpa [L1] using h

/-- not of order p + 1 (λ = 0, μ = 1) -/
theorem C02_order_is_sharp (T : ℝ) (hT : 0 < T) :
    (¬∃ C, ∀ t : ℝ, 0 < t → t ≤ T → ‖R1 (0 * t) (1 * t) - Complex.exp ((0 + 1) * t)‖ ≤ C * t ^ 3) ∧
    (¬∃ C, ∀ t : ℝ, 0 < t → t ≤ T → ‖R2 (0 * t) (1 * t) - Complex.exp ((0 + 1) * t)‖ ≤ C * t ^ 4) ∧
    (¬∃ C, ∀ t : ℝ, 0 < t → t ≤ T → ‖R3 (0 * t) (1 * t) - Complex.exp ((0 + 1) * t)‖ ≤ C * t ^ 5) ∧
    (¬∃ C, ∀ t : ℝ, 0 < t → t ≤ T → ‖R4 (0 * t) (1 * t) - Complex.exp ((0 + 1) * t)‖ ≤ C * t ^ 6) :=
  order_exactly_p T hT

/-- the ETDRK4 first weight with the sign typo `(−4 + z + e^z(4 − 3z + z²))/z³` (for `−4 − z + …`) changes the step by
    `2μdt/z²·u`, and the scheme is then not of order 4 (the local error blows up like 2μ/(λ²t)) -/
theorem C02_sign_typo_loses_order (z dt μ u : ℂ) (hz : z ≠ 0) (T : ℝ) (hT : 0 < T) :
    E4step (Complex.exp z) (Complex.exp (z / 2)) (dt * (phi1e (z / 2) / 2)) (dt * (phi1e (z / 2) / 2))
        (dt * (phi1e (z / 2) / 2)) (dt * ((-4 + z + Complex.exp z * (4 - 3 * z + z ^ 2)) / z ^ 3))
        (dt * (phi2e z - 2 * phi3e z)) (dt * (4 * phi3e z - phi2e z)) (fun v => μ * v) u =
      (R4 z (μ * dt) + 2 * (μ * dt) / z ^ 2) * u ∧
    ¬∃ C, ∀ t : ℝ, 0 < t → t ≤ T →
      ‖R4 (1 * t) (1 * t) + 2 * (1 * t) / (1 * (t : ℂ)) ^ 2 - Complex.exp ((1 + 1) * t)‖ ≤ C * t ^ 5 :=
  ⟨E4step_sign_typo z dt μ u hz, sign_typo_not_order_4 T hT⟩

/-! ### exponential Euler (ETDRK1) with a genuinely NONLINEAR Lipschitz term, systems with diagonal L: first-order
convergence with a constant that does not depend on the stiffness -/

theorem C02_global_order_partial_etdrk1_nonlinear {ι : Type} [Fintype ι] (l : ι → ℂ) (N : (ι → ℂ) → ι → ℂ)
    (K : NNReal) (hN : LipschitzWith K N) (u : ℝ → ι → ℂ) (T M ω : ℝ) (hω : 0 ≤ ω) (hl : ∀ k, (l k).re ≤ ω)
    (hu : ∀ t ∈ Set.Icc 0 T, HasDerivAt u (l * u t + N (u t)) t) (hM : ∀ t ∈ Set.Icc 0 T, ‖l * u t + N (u t)‖ ≤ M)
    (n : ℕ) (dt : ℝ) (hdt : 0 ≤ dt) (hn : n * dt ≤ T) :
    ‖u (n * dt) - (E1step (fun k => Complex.exp (l k * dt)) (fun k => dt * phi1e (l k * dt)) N)^[n] (u 0)‖ ≤
      K * M * T / 2 * Real.exp ((2 * ω + K) * T) * dt :=
  expEulerVec_global_error l N K hN u T M ω hω hl hu hM n dt hdt hn

/-! ### ETDRK2 with a genuinely NONLINEAR Lipschitz term: second-order convergence, stiffness-uniform -/

/-- hypothesis on f = N∘u along the exact solution: a first-order Taylor expansion with remainder G s²/2 (implied by
    "f has a G-Lipschitz derivative", `LinearOrder.taylor_of_lipschitz_deriv`) -/
theorem C02_global_order_partial_etdrk2_nonlinear {ι : Type} [Fintype ι] (l : ι → ℂ) (N : (ι → ℂ) → ι → ℂ)
    (K : NNReal) (hN : LipschitzWith K N) (u : ℝ → ι → ℂ) (T M ω G : ℝ) (hω : 0 ≤ ω) (hl : ∀ k, (l k).re ≤ ω)
    (hG : 0 ≤ G) (hu : ∀ t ∈ Set.Icc 0 T, HasDerivAt u (l * u t + N (u t)) t)
    (hM : ∀ t ∈ Set.Icc 0 T, ‖l * u t + N (u t)‖ ≤ M) (f' : ℝ → ι → ℂ)
    (hf : ∀ t s : ℝ, 0 ≤ t → 0 ≤ s → t + s ≤ T → ‖N (u (t + s)) - N (u t) - (s : ℂ) • f' t‖ ≤ G * s ^ 2 / 2)
    (n : ℕ) (dt : ℝ) (hdt : 0 ≤ dt) (hn : n * dt ≤ T) :
    ‖u (n * dt) - (E2step (fun k => Complex.exp (l k * dt)) (fun k => dt * phi1e (l k * dt))
        (fun k => dt * phi2e (l k * dt)) N)^[n] (u 0)‖ ≤
      (T * (Real.exp (ω * T) * ((K : ℝ) ^ 2 * M * Real.exp (ω * T) / 4 + 5 * G / 12)) *
        Real.exp ((ω + K * (3 + Real.exp (ω * T)) / 2) * T)) * dt ^ 2 := by
  have h := etd2Vec_global_error l N K hN u T M ω G hω hl hG hu hM f' hf n dt hdt hn
  simpa [etd2Vec, etd2C] using h

/-! ### the STORED contour coefficients (regenerated `E?_coef_i dt λ 16 1`, `exp_term`, `E?_half_exp_term`): global
error ≤ C'·dt^p + C''·5e-8 on the linear test family, real λ ≤ 0 -/

theorem C02_global_order_partial_stored (lam : ℝ) (m : ℂ) (T : ℝ) (hlam : lam ≤ 0) (n : ℕ) (dt : ℝ) (hdt : 0 ≤ dt)
    (hn : n * dt ≤ T) (u : ℂ) :
    ‖(E1step (exp_term (dt : ℂ) (lam : ℂ)) (E1_coef_1 (dt : ℂ) (lam : ℂ) 16 1) (fun v : ℂ => m * v))^[n] u - Complex.exp ((lam + m) * (n * dt)) * u‖ ≤
        Cfloor (Cloc1 lam m T) (pertD1 m δstored) (lam + m) 1 T * (Cloc1 lam m T * dt ^ 1 + pertD1 m δstored) * ‖u‖ ∧
    ‖(E2step (exp_term (dt : ℂ) (lam : ℂ)) (E2_coef_1 (dt : ℂ) (lam : ℂ) 16 1) (E2_coef_2 (dt : ℂ) (lam : ℂ) 16 1) (fun v : ℂ => m * v))^[n] u -
          Complex.exp ((lam + m) * (n * dt)) * u‖ ≤
        Cfloor (Cloc2 lam m T) (pertD2 lam m T δstored) (lam + m) 2 T * (Cloc2 lam m T * dt ^ 2 + pertD2 lam m T δstored) * ‖u‖ ∧
    ‖(E4step (exp_term (dt : ℂ) (lam : ℂ)) (E4_half_exp_term (dt : ℂ) (lam : ℂ) 16 1) (E4_coef_1 (dt : ℂ) (lam : ℂ) 16 1) (E4_coef_2 (dt : ℂ) (lam : ℂ) 16 1)
          (E4_coef_3 (dt : ℂ) (lam : ℂ) 16 1) (E4_coef_4 (dt : ℂ) (lam : ℂ) 16 1) (E4_coef_5 (dt : ℂ) (lam : ℂ) 16 1) (E4_coef_6 (dt : ℂ) (lam : ℂ) 16 1)
          (fun v : ℂ => m * v))^[n] u - Complex.exp ((lam + m) * (n * dt)) * u‖ ≤
        Cfloor (Cloc4 lam m T) (pertD4 lam m T δstored) (lam + m) 4 T * (Cloc4 lam m T * dt ^ 4 + pertD4 lam m T δstored) * ‖u‖ :=
  ⟨stored_E1_global lam m T hlam n dt hdt hn u, stored_E2_global lam m T hlam n dt hdt hn u,
   stored_E4_global lam m T hlam n dt hdt hn u⟩

/-- the floor is proportional to the coefficient error: for ETDRK1 it is 5e-8·‖μ‖ -/
theorem C02_stored_floor (m : ℂ) : δstored = 5e-8 ∧ pertD1 m δstored = 5e-8 * ‖m‖ :=
  ⟨rfl, pertD1_stored m⟩

/-! ### non-vacuity -/
example : (0 : ℝ) ≤ 1 ∧ ((4 : ℕ) : ℝ) * (1 / 4) ≤ 1 := by norm_num
example : (1 : ℂ) ≠ 0 ∧ (0 : ℝ) < 1 := by norm_num
/-- the hypotheses of the nonlinear theorem are met by u(t) = e^{(λ+i)t}, N v = i·v (see also the examples in
    `Proofs/LinearTestOrderNonlinear*.lean`) -/
example : LipschitzWith 1 (fun v : ℂ => Complex.I * v) := by
  refine LipschitzWith.of_dist_le_mul fun x y => ?_
  simp [dist_eq_norm, ← mul_sub]


/-! ### ETDRK3 and ETDRK4 with a genuinely NONLINEAR term: classical order 3 resp. 4 (library `Proofs/LinearTestOrderNonlinear{3,4}*.lean`).
`etd3Vec l N dt` / `etd4Vec l N dt` are the regenerated `E3step` / `E4step` on `ι → ℂ` with the per-mode exact coefficients
(`C02_etdrk?_vector_step_is_generated`); hypotheses: N Lipschitz, exact solution u, Taylor expansion of f(t) = N(u(t)) to order 2
resp. 3 with explicit remainder, and real-linear maps L τ (the role of N'(u τ), may couple the modes) with quadratic remainder and
Lipschitz dependence on τ. -/

open Exponax.LinearOrder in
theorem C02_etdrk3_nonlinear_local_error :
    ∀ (l : ℂ) (N : ℂ → ℂ) (K : NNReal),
      LipschitzWith K N →
        ∀ (u : ℝ → ℂ) (T ω M1 M2 G3 H HL : ℝ),
          0 ≤ ω →
            l.re ≤ ω →
              0 ≤ G3 →
                0 ≤ H →
                  0 ≤ HL →
                    (∀ t ∈ Set.Icc 0 T, HasDerivAt u (l * u t + N (u t)) t) →
                      ∀ (f1 f2 : ℝ → ℂ),
                        (∀ t ∈ Set.Icc 0 T, ‖f1 t‖ ≤ M1) →
                          (∀ t ∈ Set.Icc 0 T, ‖f2 t‖ ≤ M2) →
                            (∀ (t s : ℝ),
                                0 ≤ t →
                                  0 ≤ s →
                                    t + s ≤ T →
                                      ‖N (u (t + s)) - N (u t) - ↑s * f1 t - ↑s ^ 2 / 2 * f2 t‖ ≤ G3 * s ^ 3 / 6) →
                              ∀ (L : ℝ → ℂ →ₗ[ℝ] ℂ),
                                (∀ τ ∈ Set.Icc 0 T, ∀ (v : ℂ), ‖(L τ) v‖ ≤ ↑K * ‖v‖) →
                                  (∀ τ ∈ Set.Icc 0 T,
                                      ∀ (y : ℂ), ‖N y - N (u τ) - (L τ) (y - u τ)‖ ≤ H / 2 * ‖y - u τ‖ ^ 2) →
                                    (∀ τ ∈ Set.Icc 0 T,
                                        ∀ τ' ∈ Set.Icc 0 T, ∀ (v : ℂ), ‖(L τ) v - (L τ') v‖ ≤ HL * |τ - τ'| * ‖v‖) →
                                      ∀ (t h : ℝ),
                                        0 ≤ t →
                                          0 ≤ h →
                                            t + h ≤ T →
                                              ‖u (t + h) -
                                                    Gen.Etdrk.E3step (Complex.exp (l * ↑h)) (Complex.exp (l * ↑h / 2))
                                                      (↑h * (ContourTail.phi1e (l * ↑h / 2) / 2))
                                                      (↑h * ContourTail.phi1e (l * ↑h))
                                                      (↑h *
                                                        (ContourTail.phi1e (l * ↑h) - 3 * ContourTail.phi2e (l * ↑h) +
                                                          4 * ContourTail.phi3e (l * ↑h)))
                                                      (↑h *
                                                        (4 * ContourTail.phi2e (l * ↑h) - 8 * ContourTail.phi3e (l * ↑h)))
                                                      (↑h * (4 * ContourTail.phi3e (l * ↑h) - ContourTail.phi2e (l * ↑h))) N
                                                      (u t)‖ ≤
                                                ({ K := ↑K, M1 := M1, M2 := M2, G3 := G3, H := H, HL := HL, Lam := ‖l‖, ω := ω, T := T } : NL3).Cloc *
                                                  h ^ 4 :=
  @Exponax.LinearOrder.etd3_local_error

open Exponax.LinearOrder in
theorem C02_global_order_etdrk3_nonlinear :
    ∀ {ι : Type} [inst : Fintype ι] (l : ι → ℂ) (N : (ι → ℂ) → ι → ℂ) (K : NNReal),
      LipschitzWith K N →
        ∀ (u : ℝ → ι → ℂ) (T ω M1 M2 G3 H HL : ℝ),
          0 ≤ ω →
            (∀ (k : ι), (l k).re ≤ ω) →
              0 ≤ G3 →
                0 ≤ H →
                  0 ≤ HL →
                    (∀ t ∈ Set.Icc 0 T, HasDerivAt u (l * u t + N (u t)) t) →
                      ∀ (f1 f2 : ℝ → ι → ℂ),
                        (∀ t ∈ Set.Icc 0 T, ‖f1 t‖ ≤ M1) →
                          (∀ t ∈ Set.Icc 0 T, ‖f2 t‖ ≤ M2) →
                            (∀ (t s : ℝ),
                                0 ≤ t →
                                  0 ≤ s →
                                    t + s ≤ T →
                                      ‖N (u (t + s)) - N (u t) - (s : ℂ) • f1 t - ((s : ℂ) ^ 2 / 2) • f2 t‖ ≤ G3 * s ^ 3 / 6) →
                              ∀ (L : ℝ → (ι → ℂ) →ₗ[ℝ] ι → ℂ),
                                (∀ τ ∈ Set.Icc 0 T, ∀ (v : ι → ℂ), ‖(L τ) v‖ ≤ ↑K * ‖v‖) →
                                  (∀ τ ∈ Set.Icc 0 T,
                                      ∀ (y : ι → ℂ), ‖N y - N (u τ) - (L τ) (y - u τ)‖ ≤ H / 2 * ‖y - u τ‖ ^ 2) →
                                    (∀ τ ∈ Set.Icc 0 T,
                                        ∀ τ' ∈ Set.Icc 0 T, ∀ (v : ι → ℂ), ‖(L τ) v - (L τ') v‖ ≤ HL * |τ - τ'| * ‖v‖) →
                                      ∀ (n : ℕ) (dt : ℝ),
                                        0 ≤ dt →
                                          ↑n * dt ≤ T →
                                            ‖u (↑n * dt) - (etd3Vec l N dt)^[n] (u 0)‖ ≤
                                              ({ K := ↑K, M1 := M1, M2 := M2, G3 := G3, H := H, HL := HL, Lam := ‖l‖, ω := ω, T := T } : NL3).Cglob *
                                                dt ^ 3 :=
  @Exponax.LinearOrder.etd3Vec_global_error

open Exponax.LinearOrder in
theorem C02_etdrk4_nonlinear_local_error :
    ∀ (l : ℂ) (N : ℂ → ℂ) (K : NNReal),
      LipschitzWith K N →
        ∀ (u : ℝ → ℂ) (T ω M1 M2 M3 G4 H HL : ℝ),
          0 ≤ ω →
            l.re ≤ ω →
              0 ≤ G4 →
                0 ≤ H →
                  0 ≤ HL →
                    (∀ t ∈ Set.Icc 0 T, HasDerivAt u (l * u t + N (u t)) t) →
                      ∀ (f1 f2 f3 : ℝ → ℂ),
                        (∀ t ∈ Set.Icc 0 T, ‖f1 t‖ ≤ M1) →
                          (∀ t ∈ Set.Icc 0 T, ‖f2 t‖ ≤ M2) →
                            (∀ t ∈ Set.Icc 0 T, ‖f3 t‖ ≤ M3) →
                              (∀ (t s : ℝ),
                                  0 ≤ t →
                                    0 ≤ s →
                                      t + s ≤ T →
                                        ‖N (u (t + s)) - N (u t) - ↑s * f1 t - ↑s ^ 2 / 2 * f2 t - ↑s ^ 3 / 6 * f3 t‖ ≤
                                          G4 * s ^ 4 / 24) →
                                ∀ (L : ℝ → ℂ →ₗ[ℝ] ℂ),
                                  (∀ τ ∈ Set.Icc 0 T, ∀ (v : ℂ), ‖(L τ) v‖ ≤ ↑K * ‖v‖) →
                                    (∀ τ ∈ Set.Icc 0 T,
                                        ∀ (y : ℂ), ‖N y - N (u τ) - (L τ) (y - u τ)‖ ≤ H / 2 * ‖y - u τ‖ ^ 2) →
                                      (∀ τ ∈ Set.Icc 0 T,
                                          ∀ τ' ∈ Set.Icc 0 T, ∀ (v : ℂ), ‖(L τ) v - (L τ') v‖ ≤ HL * |τ - τ'| * ‖v‖) →
                                        ∀ (t h : ℝ),
                                          0 ≤ t →
                                            0 ≤ h →
                                              t + h ≤ T →
                                                ‖u (t + h) -
                                                      Gen.Etdrk.E4step (Complex.exp (l * ↑h)) (Complex.exp (l * ↑h / 2))
                                                        (↑h * (ContourTail.phi1e (l * ↑h / 2) / 2))
                                                        (↑h * (ContourTail.phi1e (l * ↑h / 2) / 2))
                                                        (↑h * (ContourTail.phi1e (l * ↑h / 2) / 2))
                                                        (↑h *
                                                          (ContourTail.phi1e (l * ↑h) - 3 * ContourTail.phi2e (l * ↑h) +
                                                            4 * ContourTail.phi3e (l * ↑h)))
                                                        (↑h * (ContourTail.phi2e (l * ↑h) - 2 * ContourTail.phi3e (l * ↑h)))
                                                        (↑h * (4 * ContourTail.phi3e (l * ↑h) - ContourTail.phi2e (l * ↑h)))
                                                        N (u t)‖ ≤
                                                  ({ K := ↑K, M1 := M1, M2 := M2, M3 := M3, G4 := G4, H := H, HL := HL, Lam := ‖l‖, ω := ω, T := T } : NL4).Cloc *
                                                    h ^ 5 :=
  @Exponax.LinearOrder.etd4_local_error

open Exponax.LinearOrder in
theorem C02_global_order_etdrk4_nonlinear :
    ∀ {ι : Type} [inst : Fintype ι] (l : ι → ℂ) (N : (ι → ℂ) → ι → ℂ) (K : NNReal),
      LipschitzWith K N →
        ∀ (u : ℝ → ι → ℂ) (T ω M1 M2 M3 G4 H HL : ℝ),
          0 ≤ ω →
            (∀ (k : ι), (l k).re ≤ ω) →
              0 ≤ G4 →
                0 ≤ H →
                  0 ≤ HL →
                    (∀ t ∈ Set.Icc 0 T, HasDerivAt u (l * u t + N (u t)) t) →
                      ∀ (f1 f2 f3 : ℝ → ι → ℂ),
                        (∀ t ∈ Set.Icc 0 T, ‖f1 t‖ ≤ M1) →
                          (∀ t ∈ Set.Icc 0 T, ‖f2 t‖ ≤ M2) →
                            (∀ t ∈ Set.Icc 0 T, ‖f3 t‖ ≤ M3) →
                              (∀ (t s : ℝ),
                                  0 ≤ t →
                                    0 ≤ s →
                                      t + s ≤ T →
                                        ‖N (u (t + s)) - N (u t) - (s : ℂ) • f1 t - ((s : ℂ) ^ 2 / 2) • f2 t - ((s : ℂ) ^ 3 / 6) • f3 t‖ ≤
                                          G4 * s ^ 4 / 24) →
                                ∀ (L : ℝ → (ι → ℂ) →ₗ[ℝ] ι → ℂ),
                                  (∀ τ ∈ Set.Icc 0 T, ∀ (v : ι → ℂ), ‖(L τ) v‖ ≤ ↑K * ‖v‖) →
                                    (∀ τ ∈ Set.Icc 0 T,
                                        ∀ (y : ι → ℂ), ‖N y - N (u τ) - (L τ) (y - u τ)‖ ≤ H / 2 * ‖y - u τ‖ ^ 2) →
                                      (∀ τ ∈ Set.Icc 0 T,
                                          ∀ τ' ∈ Set.Icc 0 T, ∀ (v : ι → ℂ), ‖(L τ) v - (L τ') v‖ ≤ HL * |τ - τ'| * ‖v‖) →
                                        ∀ (n : ℕ) (dt : ℝ),
                                          0 ≤ dt →
                                            ↑n * dt ≤ T →
                                              ‖u (↑n * dt) - (etd4Vec l N dt)^[n] (u 0)‖ ≤
                                                ({ K := ↑K, M1 := M1, M2 := M2, M3 := M3, G4 := G4, H := H, HL := HL, Lam := ‖l‖, ω := ω, T := T } : NL4).Cglob *
                                                  dt ^ 4 :=
  @Exponax.LinearOrder.etd4Vec_global_error

open Exponax.LinearOrder in
theorem C02_etdrk3_vector_step_is_generated :
    ∀ {ι : Type} (l : ι → ℂ) (N : (ι → ℂ) → ι → ℂ) (dt : ℝ) (x : ι → ℂ) (k : ι),
      etd3Vec l N dt x k =
        Complex.exp (l k * ↑dt) * x k +
              ↑dt *
                  (ContourTail.phi1e (l k * ↑dt) - 3 * ContourTail.phi2e (l k * ↑dt) + 4 * ContourTail.phi3e (l k * ↑dt)) *
                N x k +
            ↑dt * (4 * ContourTail.phi2e (l k * ↑dt) - 8 * ContourTail.phi3e (l k * ↑dt)) * N (etd3VecA l N dt x) k +
          ↑dt * (4 * ContourTail.phi3e (l k * ↑dt) - ContourTail.phi2e (l k * ↑dt)) * N (etd3VecB l N dt x) k :=
  @Exponax.LinearOrder.etd3Vec_apply

open Exponax.LinearOrder in
theorem C02_etdrk4_vector_step_is_generated :
    ∀ {ι : Type} (l : ι → ℂ) (N : (ι → ℂ) → ι → ℂ) (dt : ℝ) (x : ι → ℂ) (k : ι),
      etd4Vec l N dt x k =
        Complex.exp (l k * ↑dt) * x k +
              ↑dt *
                  (ContourTail.phi1e (l k * ↑dt) - 3 * ContourTail.phi2e (l k * ↑dt) + 4 * ContourTail.phi3e (l k * ↑dt)) *
                N x k +
            ↑dt * (ContourTail.phi2e (l k * ↑dt) - 2 * ContourTail.phi3e (l k * ↑dt)) * 2 *
              (N (etd4VecA l N dt x) k + N (etd4VecB l N dt x) k) +
          ↑dt * (4 * ContourTail.phi3e (l k * ↑dt) - ContourTail.phi2e (l k * ↑dt)) * N (etd4VecC l N dt x) k :=
  @Exponax.LinearOrder.etd4Vec_apply


end Exponax
