import Mathlib.Tactic
import Mathlib.Logic.Function.Iterate
import ExponaxModel.Model.Loops
import ExponaxModel.Proofs.LoopsGenEq
import ExponaxModel.Proofs.SmallGaps2Aux
/-
C14 — rollout, repeat and the wrapper steppers equal the naive loop.
`Loops.*` is the hand-written mirror of exponax/_utils.py (`lax.scan` as a fold);
it is tied to the implementation by the exact integer correspondence of the check.
The state type `S` is arbitrary (pytrees are handled leaf-wise by the harness).
-/
set_option linter.unusedVariables false
namespace Exponax
open Exponax.Loops

variable {S A : Type}

theorem scanStates_length (f : S → S) (n : ℕ) (u : S) : (scanStates f n u).length = n := by
  induction n generalizing u with
  | zero => rfl
  | succ n ih => simp [scanStates, ih]

/-- entry `i` of the scan is the `(i+1)`-fold application -/
theorem scanStates_getElem (f : S → S) (n : ℕ) (u : S) (i : ℕ) (h : i < (scanStates f n u).length) :
    (scanStates f n u)[i] = f^[i + 1] u := by
  induction n generalizing u i with
  | zero => simp [scanStates] at h
  | succ n ih =>
    cases i with
    | zero => simp [scanStates]
    | succ i =>
      simp only [scanStates, List.getElem_cons_succ]
      rw [ih]
      simp [Function.iterate_succ_apply]

/-- `rollout(f, n)(u0)`: `n` entries, entry `i` is `f^(i+1)(u0)` -/
theorem C14_rollout_get (f : S → S) (n : ℕ) (u0 : S) :
    (rollout f n false u0).length = n ∧
    ∀ i (h : i < (rollout f n false u0).length), (rollout f n false u0)[i] = f^[i + 1] u0 := by
  refine ⟨by simp [rollout, scanStates_length], ?_⟩
  intro i h
  simp only [rollout] at h ⊢
  exact scanStates_getElem f n u0 i h

/-- `include_init=True`: `n+1` entries, entry `i` is `f^i(u0)` (the initial state is prepended) -/
theorem C14_rollout_init_get (f : S → S) (n : ℕ) (u0 : S) :
    (rollout f n true u0).length = n + 1 ∧
    ∀ i (h : i < (rollout f n true u0).length), (rollout f n true u0)[i] = f^[i] u0 := by
  refine ⟨by simp [rollout, scanStates_length], ?_⟩
  intro i h
  simp only [rollout] at h ⊢
  cases i with
  | zero => simp
  | succ i =>
    simp only [if_true, List.getElem_cons_succ]
    rw [scanStates_getElem]

/-- `repeat(f, n)(u0) = f^n(u0)` -/
theorem C14_repeat_iterate (f : S → S) (n : ℕ) (u0 : S) : repeatN f n u0 = f^[n] u0 := by
  induction n generalizing u0 with
  | zero => rfl
  | succ n ih => simp [repeatN, ih, Function.iterate_succ_apply]

/-- `repeat` returns the last entry of the rollout -/
theorem C14_repeat_last (f : S → S) (n : ℕ) (u0 : S) :
    (rollout f n true u0).getLast? = some (repeatN f n u0) := by
  have h := C14_rollout_init_get f n u0
  rw [List.getLast?_eq_getElem?, h.1]
  simp only [Nat.add_sub_cancel]
  rw [List.getElem?_eq_getElem (by rw [h.1]; omega), h.2, C14_repeat_iterate]

/-- step counts add: `repeat(f, m+n) = repeat(f, n) ∘ repeat(f, m)` -/
theorem C14_repeat_add (f : S → S) (m n : ℕ) (u0 : S) :
    repeatN f (m + n) u0 = repeatN f n (repeatN f m u0) := by
  simp only [C14_repeat_iterate, Nat.add_comm m n, Function.iterate_add_apply]

theorem scanStatesAux_length (f : S → A → S) (as : List A) (u : S) : (scanStatesAux f as u).length = as.length := by
  induction as generalizing u with
  | nil => rfl
  | cons a as ih => simp [scanStatesAux, ih]

/-- with auxiliary inputs consumed in order, entry `i` is the left fold over the first `i+1` of them -/
theorem scanStatesAux_getElem (f : S → A → S) (as : List A) (u : S) (i : ℕ)
    (h : i < (scanStatesAux f as u).length) :
    (scanStatesAux f as u)[i] = (as.take (i + 1)).foldl f u := by
  induction as generalizing u i with
  | nil => simp [scanStatesAux] at h
  | cons a as ih =>
    cases i with
    | zero => simp [scanStatesAux]
    | succ i =>
      simp only [scanStatesAux, List.getElem_cons_succ]
      rw [ih]
      simp [List.take_succ_cons]

/-- variable aux: the first `n` auxiliary inputs are consumed in order -/
theorem C14_aux_order (f : S → A → S) (n : ℕ) (u0 : S) (aux : List A) (hn : n ≤ aux.length) :
    (rolloutAux f n false false u0 aux).length = n ∧
    ∀ i (h : i < (rolloutAux f n false false u0 aux).length),
      (rolloutAux f n false false u0 aux)[i] = (aux.take (i + 1)).foldl f u0 := by
  constructor
  · simp [rolloutAux, scanStatesAux_length, hn]
  · intro i h
    simp only [rolloutAux] at h ⊢
    simp only [Bool.false_eq_true, if_false] at h ⊢
    rw [scanStatesAux_getElem]
    have hi : i < n := by simpa [scanStatesAux_length, hn] using h
    rw [List.take_take]
    congr 2
    omega

theorem filterMap_replicate_some (n : ℕ) (a : A) :
    (List.replicate n (some a)).filterMap id = List.replicate n a := by
  induction n with
  | zero => rfl
  | succ n ih => simp [List.replicate_succ, ih]

theorem scanStatesAux_replicate (f : S → A → S) (n : ℕ) (a : A) (u : S) :
    scanStatesAux f (List.replicate n a) u = scanStates (fun v => f v a) n u := by
  induction n generalizing u with
  | zero => rfl
  | succ n ih => simp [List.replicate_succ, scanStatesAux, scanStates, ih]

/-- constant aux: the same auxiliary input is used at every step -/
theorem C14_aux_constant (f : S → A → S) (n : ℕ) (incl : Bool) (u0 : S) (a : A) :
    rolloutAux f n incl true u0 [a] = rollout (fun v => f v a) n incl u0 := by
  simp [rolloutAux, rollout, filterMap_replicate_some, scanStatesAux_replicate]

/-- `repeat` with aux returns the last state of the corresponding rollout fold -/
theorem C14_repeat_aux (f : S → A → S) (n : ℕ) (u0 : S) (aux : List A) :
    repeatAux f n false u0 aux = (aux.take n).foldl f u0 := by
  simp [repeatAux]

theorem C14_repeat_aux_constant (f : S → A → S) (n : ℕ) (u0 : S) (a : A) :
    repeatAux f n true u0 [a] = repeatN (fun v => f v a) n u0 := by
  simp only [repeatAux, if_true, List.head?_cons, filterMap_replicate_some]
  induction n generalizing u0 with
  | zero => rfl
  | succ n ih => simp [List.replicate_succ, repeatN, ih]

/-- `stack_sub_trajectories`: rejected iff the window is longer than the trajectory -/
theorem C14_windows_reject (trj : List S) (subLen : ℕ) :
    stackSub trj subLen = none ↔ subLen > trj.length := by
  unfold stackSub; split <;> simp_all

/-- otherwise: `T − len + 1` windows, window `i` is `trj[i .. i+len)`, in order -/
theorem C14_windows (trj : List S) (subLen : ℕ) (h : subLen ≤ trj.length) :
    ∃ w, stackSub trj subLen = some w ∧ w.length = trj.length - subLen + 1 ∧
      ∀ i (hi : i < w.length), w[i] = (trj.drop i).take subLen ∧ (w[i]).length = subLen := by
  refine ⟨(List.range (trj.length - subLen + 1)).map (fun i => (trj.drop i).take subLen), ?_, by simp, ?_⟩
  · unfold stackSub; rw [if_neg (by omega)]
  · intro i hi
    simp only [List.length_map, List.length_range] at hi
    simp only [List.getElem_map, List.getElem_range, List.length_take, List.length_drop, true_and]
    omega

/-- entry `j` of window `i` is entry `i+j` of the trajectory -/
theorem C14_windows_entry (trj : List S) (subLen i j : ℕ) (hj : j < subLen) (hij : i + j < trj.length) :
    ((trj.drop i).take subLen)[j]? = trj[i + j]? := by
  simp [List.getElem?_take, hj]

/-- a repeated stepper is `n` applications of its inner stepper, with effective time step `n·dt` -/
theorem C14_repeated_stepper (stepFourier : S → S) (n : ℕ) (u : S) :
    repeatedStepFourier stepFourier n u = stepFourier^[n] u := C14_repeat_iterate stepFourier n u

theorem C14_repeated_dt {K : Type} [Semiring K] (dt : K) (n : ℕ) : repeatedDt dt n = dt * (n : K) := rfl

/-! non-vacuity -/
example : rollout (fun x : ℕ => 2 * x + 1) 3 true 0 = [0, 1, 3, 7] := by decide
example : stackSub [1, 2, 3, 4] 3 = some [[1, 2, 3], [2, 3, 4]] := by decide
example : (3 : ℕ) ≤ [1, 2, 3, 4].length := by decide

/-! ### `rollout`, `repeat`, `stack_sub_trajectories` and `RepeatedStepper` as REGENERATED from `exponax/_utils.py` and
`_repeated_stepper.py` (`jax.lax.scan` read as the fold it denotes) are the model functions of the theorems above -/
open Exponax.Gen.LoopsGen in
theorem C14_generated_utilities {S A : Type} (f : S → S) (fa : S → A → S) (n k : ℕ) (b : Bool) (u0 : S) (a : A)
    (trj : List S) :
    rollout_noaux f n b u0 = Loops.rollout f n b u0 ∧
    repeat_noaux f n u0 = Loops.repeatN f n u0 ∧
    rollout_aux_constant fa n b u0 a = some (Loops.rolloutAux fa n b true u0 [a]) ∧
    stack_sub_trajectories trj k = Loops.stackSub trj k ∧
    RepeatedStepper_step_fourier n f u0 = Loops.repeatedStepFourier f n u0 :=
  ⟨rollout_noaux_eq f n b u0, repeat_noaux_eq f n u0, rollout_aux_constant_eq fa n b u0 a,
   stack_sub_trajectories_eq trj k, RepeatedStepper_step_fourier_eq f n u0⟩

theorem C14_generated_coverage : Gen.LoopsGen.generated_loops.length = 9 := by
  rw [Gen.LoopsGen.generated_loops_pinned]; rfl


/-! ### auxiliary inputs consumed in order WITH `include_init`, and the regenerated aux rollout (wrong-length aux is rejected) -/

open Exponax.SmallGaps2 in
theorem C14_aux_order_with_init :
    ∀ {S A : Type} (f : S → A → S) (n : ℕ) (u0 : S) (aux : List A),
      n ≤ aux.length →
        (Loops.rolloutAux f n true false u0 aux).length = n + 1 ∧
          ∀ (i : ℕ) (h : i < (Loops.rolloutAux f n true false u0 aux).length),
            (Loops.rolloutAux f n true false u0 aux)[i] = List.foldl f u0 (List.take i aux) :=
  @Exponax.SmallGaps2.aux_order_init

open Exponax.SmallGaps2 in
theorem C14_generated_aux_sequence_with_init :
    ∀ {S A : Type} (f : S → A → S) (n : ℕ) (u0 : S) (aux : List A),
      aux.length = n →
        ∃ trj,
          Gen.LoopsGen.rollout_aux_sequence f n true u0 aux = some trj ∧
            trj.length = n + 1 ∧ trj[0]? = some u0 ∧ ∀ i < n, trj[i + 1]? = some (List.foldl f u0 (List.take (i + 1) aux)) :=
  @Exponax.SmallGaps2.generated_aux_sequence_init

open Exponax.SmallGaps2 in
theorem C14_generated_aux_sequence :
    ∀ {S A : Type} (f : S → A → S) (n : ℕ) (b : Bool) (u0 : S) (aux : List A),
      (aux.length ≠ n → Gen.LoopsGen.rollout_aux_sequence f n b u0 aux = none) ∧
        (aux.length = n →
          ∃ trj,
            Gen.LoopsGen.rollout_aux_sequence f n b u0 aux = some trj ∧
              trj = Loops.rolloutAux f n b false u0 aux ∧
                (trj.length = n + if b = true then 1 else 0) ∧
                  ∀ (i : ℕ) (h : i < trj.length), trj[i] = List.foldl f u0 (List.take (i + if b = true then 0 else 1) aux)) :=
  @Exponax.SmallGaps2.generated_aux_sequence


end Exponax
