import ExponaxModel.Properties.C14
import ExponaxModel.Proofs.RepeatedPhysicalNonlin
import ExponaxModel.Proofs.RepeatedPhysicalWavenumber
import ExponaxModel.Proofs.RepeatedPhysicalCounter
/-
C14 (continued) — `RepeatedStepper(stepper, n)(u) = ifft(step_fourier^n(fft u))` against the naive loop
`(ifft ∘ step_fourier ∘ fft)^n (u)` between the MODEL transforms, general D ≥ 1, N ≥ 1.  They agree exactly when
`rfftn ∘ irfftn` is the identity on the spectra that occur: `Realisable` (Hermitian-consistent self-conjugate columns) is
equivalent to being the spectrum of a real grid state and to being a fixed point of `rfftn ∘ irfftn`; a step that preserves
it makes the two evaluations equal for every n (linear steps: iff the symbol is Hermitian on the self-conjugate columns —
every symbol g(−k) = conj g(k) on odd grids, real even-order symbols on every grid; ETD-type steps with a real nonlinearity).
The hypothesis is needed: multiplying the Nyquist bin by i (one derivative, even grid) separates the two — proved as a
counterexample.  This is why the C14 search compares RepeatedStepper with the loop on odd grids / even-order symbols /
Nyquist-free states only (DESIGN §10.6, seventh pass).
-/
set_option linter.unusedVariables false
namespace Exponax

open Exponax.C2R in
theorem C14_spectrum_round_trip_of_realisable :
    ∀ (D N : ℕ),
      0 < D → 0 < N → ∀ (C : Array ℂ), Realisable D N C → Transform.rfftnM D N (Transform.irfftnM D N C) = C :=
  @Exponax.C2R.rfftn_irfftn_of_realisable

open Exponax.C2R in
theorem C14_realisable_iff_round_trip :
    ∀ (D N : ℕ),
      0 < D → 0 < N → ∀ (C : Array ℂ), Realisable D N C ↔ Transform.rfftnM D N (Transform.irfftnM D N C) = C :=
  @Exponax.C2R.realisable_iff_fixed

open Exponax.C2R in
theorem C14_real_state_spectrum_realisable :
    ∀ (D N : ℕ),
      0 < D → 0 < N → ∀ (u : Array ℂ), RealState D N u → Realisable D N (Transform.rfftnM D N u) :=
  @Exponax.C2R.rfftn_realisable

open Exponax.C2R in
theorem C14_realisable_iff_spectrum_of_real_state :
    ∀ (D N : ℕ),
      0 < D → 0 < N → ∀ (C : Array ℂ), Realisable D N C ↔ ∃ u, RealState D N u ∧ C = Transform.rfftnM D N u :=
  @Exponax.C2R.realisable_iff_spectrum

open Exponax.C2R in
theorem C14_repeated_stepper_is_the_physical_loop :
    ∀ (D N : ℕ),
      0 < D →
        0 < N →
          ∀ (F : Array ℂ → Array ℂ),
            (∀ (C : Array ℂ), Realisable D N C → Realisable D N (F C)) →
              ∀ (u : Array ℂ),
                RealState D N u →
                  ∀ (n : ℕ),
                    Loops.repeatN (fun v ↦ Transform.irfftnM D N (F (Transform.rfftnM D N v))) n u =
                      Transform.irfftnM D N (Loops.repeatedStepFourier F n (Transform.rfftnM D N u)) :=
  @Exponax.C2R.repeatedStepper_eq_loop

open Exponax.C2R in
theorem C14_linear_step_preserves_realisable_iff :
    ∀ (D N : ℕ),
      0 < D →
        0 < N → ∀ (e : ℕ → ℂ), (∀ (C : Array ℂ), Realisable D N C → Realisable D N (diagStep D N e C)) ↔ HermSymbol D N e :=
  @Exponax.C2R.diag_preserves_realisable_iff

open Exponax.C2R in
theorem C14_symbol_condition_1d :
    ∀ (N : ℕ), 0 < N → ∀ (e : ℕ → ℂ), HermSymbol 1 N e ↔ (e 0).im = 0 ∧ (N % 2 = 0 → (e (N / 2)).im = 0) :=
  @Exponax.C2R.hermSymbol_1d_iff

open Exponax.C2R in
theorem C14_repeated_linear_odd_grid :
    ∀ (D N : ℕ),
      0 < D →
        N % 2 = 1 →
          ∀ (g : List ℤ → ℂ),
            (∀ (k : List ℤ), g (List.map (fun x ↦ -x) k) = (starRingEnd ℂ) (g k)) →
              ∀ (u : Array ℂ),
                RealState D N u →
                  ∀ (n : ℕ),
                    Loops.repeatN
                        (fun v ↦
                          Transform.irfftnM D N (diagStep D N (fun h ↦ g (Layout.wnFlat D N h)) (Transform.rfftnM D N v)))
                        n u =
                      Transform.irfftnM D N
                        (Loops.repeatedStepFourier (diagStep D N fun h ↦ g (Layout.wnFlat D N h)) n
                          (Transform.rfftnM D N u)) :=
  @Exponax.C2R.odd_grid_repeated_loop_wavenumber

open Exponax.C2R in
theorem C14_even_order_symbols_qualify_on_every_grid :
    ∀ (D N : ℕ),
      0 < D →
        0 < N →
          ∀ (g : List ℤ → ℂ),
            (∀ (k : List ℤ), (g k).im = 0) →
              (∀ (k k' : List ℤ),
                  k.length = k'.length → (∀ d < k.length, (k'.getD d 0).natAbs = (k.getD d 0).natAbs) → g k' = g k) →
                HermSymbol D N fun h ↦ g (Layout.wnFlat D N h) :=
  @Exponax.C2R.hermSymbol_of_abs_real

open Exponax.C2R in
theorem C14_repeated_linear_is_the_loop :
    ∀ (D N : ℕ),
      0 < D →
        0 < N →
          ∀ (e : ℕ → ℂ),
            HermSymbol D N e →
              ∀ (u : Array ℂ),
                RealState D N u →
                  ∀ (n : ℕ),
                    Loops.repeatN (fun v ↦ Transform.irfftnM D N (diagStep D N e (Transform.rfftnM D N v))) n u =
                      Transform.irfftnM D N (Loops.repeatedStepFourier (diagStep D N e) n (Transform.rfftnM D N u)) :=
  @Exponax.C2R.repeated_loop_diag

open Exponax.C2R in
theorem C14_repeated_etd_step_is_the_loop :
    ∀ (D N : ℕ),
      0 < D →
        0 < N →
          ∀ (e c : ℕ → ℂ),
            HermSymbol D N e →
              HermSymbol D N c →
                ∀ (𝒩 : Array ℂ → Array ℂ),
                  (∀ (v : Array ℂ), RealState D N v → ∀ j < N ^ D, ((𝒩 v).getD j 0).im = 0) →
                    ∀ (u : Array ℂ),
                      RealState D N u →
                        ∀ (n : ℕ),
                          Loops.repeatN
                              (fun v ↦
                                Transform.irfftnM D N
                                  ((fun C ↦
                                      addSpec D N (diagStep D N e C)
                                        (diagStep D N c (Transform.rfftnM D N (𝒩 (Transform.irfftnM D N C)))))
                                    (Transform.rfftnM D N v)))
                              n u =
                            Transform.irfftnM D N
                              (Loops.repeatedStepFourier
                                (fun C ↦
                                  addSpec D N (diagStep D N e C)
                                    (diagStep D N c (Transform.rfftnM D N (𝒩 (Transform.irfftnM D N C)))))
                                n (Transform.rfftnM D N u)) :=
  @Exponax.C2R.repeated_loop_etd

open Exponax.C2R in
theorem C14_repeated_differs_from_loop_at_nyquist :
    Loops.repeatN (fun v ↦ Transform.irfftnM 1 2 (FnyqI (Transform.rfftnM 1 2 v))) 2
        #[1, -1] ≠
      Transform.irfftnM 1 2 (Loops.repeatedStepFourier FnyqI 2 (Transform.rfftnM 1 2 #[1, -1])) :=
  @Exponax.C2R.repeatedStepper_ne_loop_nyquist

open Exponax.C2R in
theorem C14_nyquist_counterexample_hypothesis_fails :
    ¬∀ (C : Array ℂ), Realisable 1 2 C → Realisable 1 2 (FnyqI C) :=
  @Exponax.C2R.FnyqI_not_preserving


end Exponax
