import ExponaxModel.Properties.C14
import ExponaxModel.Proofs.RepeatedPhysicalNonlin
import ExponaxModel.Proofs.RepeatedPhysicalWavenumber
import ExponaxModel.Proofs.RepeatedPhysicalCounter
import ExponaxModel.Proofs.RepeatedPhysicalEtdrkCoef
/-
C14 (continued) — `RepeatedStepper(stepper, n)(u) = ifft(step_fourier^n(fft u))` against the naive loop
`(ifft ∘ step_fourier ∘ fft)^n (u)` between the MODEL transforms, general D ≥ 1, N ≥ 1.  They agree exactly when
`rfftn ∘ irfftn` is the identity on the spectra that occur: `Realisable` (Hermitian-consistent self-conjugate columns) is
equivalent to being the spectrum of a real grid state and to being a fixed point of `rfftn ∘ irfftn`; a step that preserves
it makes the two evaluations equal for every n (linear steps: iff the symbol is Hermitian on the self-conjugate columns —
every symbol g(−k) = conj g(k) on odd grids, real even-order symbols on every grid; ETD-type steps with a real nonlinearity).
The hypothesis is needed: multiplying the Nyquist bin by i (one derivative, even grid) separates the two — proved as a
counterexample.  This is why the C14 search compares RepeatedStepper with the loop on odd grids / even-order symbols /
Nyquist-free states only (DESIGN §10.6, seventh pass).
-/
set_option linter.unusedVariables false
namespace Exponax

open Exponax.C2R in
theorem C14_spectrum_round_trip_of_realisable :
    ∀ (D N : ℕ),
      0 < D → 0 < N → ∀ (C : Array ℂ), Realisable D N C → Transform.rfftnM D N (Transform.irfftnM D N C) = C :=
  @Exponax.C2R.rfftn_irfftn_of_realisable

open Exponax.C2R in
theorem C14_realisable_iff_round_trip :
    ∀ (D N : ℕ),
      0 < D → 0 < N → ∀ (C : Array ℂ), Realisable D N C ↔ Transform.rfftnM D N (Transform.irfftnM D N C) = C :=
  @Exponax.C2R.realisable_iff_fixed

open Exponax.C2R in
theorem C14_real_state_spectrum_realisable :
    ∀ (D N : ℕ),
      0 < D → 0 < N → ∀ (u : Array ℂ), RealState D N u → Realisable D N (Transform.rfftnM D N u) :=
  @Exponax.C2R.rfftn_realisable

open Exponax.C2R in
theorem C14_realisable_iff_spectrum_of_real_state :
    ∀ (D N : ℕ),
      0 < D → 0 < N → ∀ (C : Array ℂ), Realisable D N C ↔ ∃ u, RealState D N u ∧ C = Transform.rfftnM D N u :=
  @Exponax.C2R.realisable_iff_spectrum

open Exponax.C2R in
theorem C14_repeated_stepper_is_the_physical_loop :
    ∀ (D N : ℕ),
      0 < D →
        0 < N →
          ∀ (F : Array ℂ → Array ℂ),
            (∀ (C : Array ℂ), Realisable D N C → Realisable D N (F C)) →
              ∀ (u : Array ℂ),
                RealState D N u →
                  ∀ (n : ℕ),
                    Loops.repeatN (fun v ↦ Transform.irfftnM D N (F (Transform.rfftnM D N v))) n u =
                      Transform.irfftnM D N (Loops.repeatedStepFourier F n (Transform.rfftnM D N u)) :=
  @Exponax.C2R.repeatedStepper_eq_loop

open Exponax.C2R in
theorem C14_linear_step_preserves_realisable_iff :
    ∀ (D N : ℕ),
      0 < D →
        0 < N → ∀ (e : ℕ → ℂ), (∀ (C : Array ℂ), Realisable D N C → Realisable D N (diagStep D N e C)) ↔ HermSymbol D N e :=
  @Exponax.C2R.diag_preserves_realisable_iff

open Exponax.C2R in
theorem C14_symbol_condition_1d :
    ∀ (N : ℕ), 0 < N → ∀ (e : ℕ → ℂ), HermSymbol 1 N e ↔ (e 0).im = 0 ∧ (N % 2 = 0 → (e (N / 2)).im = 0) :=
  @Exponax.C2R.hermSymbol_1d_iff

open Exponax.C2R in
theorem C14_repeated_linear_odd_grid :
    ∀ (D N : ℕ),
      0 < D →
        N % 2 = 1 →
          ∀ (g : List ℤ → ℂ),
            (∀ (k : List ℤ), g (List.map (fun x ↦ -x) k) = (starRingEnd ℂ) (g k)) →
              ∀ (u : Array ℂ),
                RealState D N u →
                  ∀ (n : ℕ),
                    Loops.repeatN
                        (fun v ↦
                          Transform.irfftnM D N (diagStep D N (fun h ↦ g (Layout.wnFlat D N h)) (Transform.rfftnM D N v)))
                        n u =
                      Transform.irfftnM D N
                        (Loops.repeatedStepFourier (diagStep D N fun h ↦ g (Layout.wnFlat D N h)) n
                          (Transform.rfftnM D N u)) :=
  @Exponax.C2R.odd_grid_repeated_loop_wavenumber

open Exponax.C2R in
theorem C14_even_order_symbols_qualify_on_every_grid :
    ∀ (D N : ℕ),
      0 < D →
        0 < N →
          ∀ (g : List ℤ → ℂ),
            (∀ (k : List ℤ), (g k).im = 0) →
              (∀ (k k' : List ℤ),
                  k.length = k'.length → (∀ d < k.length, (k'.getD d 0).natAbs = (k.getD d 0).natAbs) → g k' = g k) →
                HermSymbol D N fun h ↦ g (Layout.wnFlat D N h) :=
  @Exponax.C2R.hermSymbol_of_abs_real

open Exponax.C2R in
theorem C14_repeated_linear_is_the_loop :
    ∀ (D N : ℕ),
      0 < D →
        0 < N →
          ∀ (e : ℕ → ℂ),
            HermSymbol D N e →
              ∀ (u : Array ℂ),
                RealState D N u →
                  ∀ (n : ℕ),
                    Loops.repeatN (fun v ↦ Transform.irfftnM D N (diagStep D N e (Transform.rfftnM D N v))) n u =
                      Transform.irfftnM D N (Loops.repeatedStepFourier (diagStep D N e) n (Transform.rfftnM D N u)) :=
  @Exponax.C2R.repeated_loop_diag

open Exponax.C2R in
theorem C14_repeated_etd_step_is_the_loop :
    ∀ (D N : ℕ),
      0 < D →
        0 < N →
          ∀ (e c : ℕ → ℂ),
            HermSymbol D N e →
              HermSymbol D N c →
                ∀ (𝒩 : Array ℂ → Array ℂ),
                  (∀ (v : Array ℂ), RealState D N v → ∀ j < N ^ D, ((𝒩 v).getD j 0).im = 0) →
                    ∀ (u : Array ℂ),
                      RealState D N u →
                        ∀ (n : ℕ),
                          Loops.repeatN
                              (fun v ↦
                                Transform.irfftnM D N
                                  ((fun C ↦
                                      addSpec D N (diagStep D N e C)
                                        (diagStep D N c (Transform.rfftnM D N (𝒩 (Transform.irfftnM D N C)))))
                                    (Transform.rfftnM D N v)))
                              n u =
                            Transform.irfftnM D N
                              (Loops.repeatedStepFourier
                                (fun C ↦
                                  addSpec D N (diagStep D N e C)
                                    (diagStep D N c (Transform.rfftnM D N (𝒩 (Transform.irfftnM D N C)))))
                                n (Transform.rfftnM D N u)) :=
  @Exponax.C2R.repeated_loop_etd

open Exponax.C2R in
theorem C14_repeated_differs_from_loop_at_nyquist :
    Loops.repeatN (fun v ↦ Transform.irfftnM 1 2 (FnyqI (Transform.rfftnM 1 2 v))) 2
        #[1, -1] ≠
      Transform.irfftnM 1 2 (Loops.repeatedStepFourier FnyqI 2 (Transform.rfftnM 1 2 #[1, -1])) :=
  @Exponax.C2R.repeatedStepper_ne_loop_nyquist

open Exponax.C2R in
theorem C14_nyquist_counterexample_hypothesis_fails :
    ¬∀ (C : Array ℂ), Realisable 1 2 C → Realisable 1 2 (FnyqI C) :=
  @Exponax.C2R.FnyqI_not_preserving



/-! ### instantiated on the REGENERATED ETDRK step formulas (`Gen.Etdrk.E0step … E4step` with the regenerated `exp_term`,
half-step factor and all fourteen contour coefficients): if the linear symbol is Hermitian on the self-conjugate columns
(`HermSymbol`; on odd grids: λ(−k) = conj λ(k)), `dt` and the contour radius are real and the nonlinear term is
pseudo-spectral (`m ⊙ rfftn(g(irfftn û))`, `g` real on real states, `m` a Hermitian multiplier such as the dealiasing
mask), then every stored coefficient array is a Hermitian symbol again (the conjugate of the contour mean over the roots of
unity is the mean over the conjugate roots — the same set), every ETDRK-p step (p = 0..4) maps realisable spectra to
realisable spectra, and the repeated stepper IS the physical-space loop, for every n and every real state -/

open Exponax.C2R in
theorem C14_realisable_of_tabulated_spectrum :
    ∀ (D N : ℕ),
      0 < D → 0 < N → ∀ (f : ℕ → ℂ), Realisable D N (Transform.tab (Layout.numModes D N) f) ↔ HermSpec D N f :=
  @Exponax.C2R.realisable_tab_iff

open Exponax.C2R in
theorem C14_every_etdrk_step_preserves_hermitian_consistency :
    ∀ (D N : ℕ) (e eh a1 a2 a3 a4 a5 a6 : ℕ → ℂ),
      HermSymbol D N e →
        HermSymbol D N eh →
          HermSymbol D N a1 →
            HermSymbol D N a2 →
              HermSymbol D N a3 →
                HermSymbol D N a4 →
                  HermSymbol D N a5 →
                    HermSymbol D N a6 →
                      ∀ (𝒩 : (ℕ → ℂ) → ℕ → ℂ),
                        (∀ (f : ℕ → ℂ), HermSpec D N f → HermSpec D N (𝒩 f)) →
                          ∀ (u : ℕ → ℂ),
                            HermSpec D N u →
                              HermSpec D N (Gen.Etdrk.E0step e u) ∧
                                HermSpec D N (Gen.Etdrk.E1step e a1 𝒩 u) ∧
                                  HermSpec D N (Gen.Etdrk.E2step e a1 a2 𝒩 u) ∧
                                    HermSpec D N (Gen.Etdrk.E3step e eh a1 a2 a3 a4 a5 𝒩 u) ∧
                                      HermSpec D N (Gen.Etdrk.E4step e eh a1 a2 a3 a4 a5 a6 𝒩 u) :=
  @Exponax.C2R.etdrk_steps_hermSpec

open Exponax.C2R in
theorem C14_etdrk4_step_preserves_realisable :
    ∀ (D N : ℕ),
      0 < D →
        0 < N →
          ∀ (e eh a1 a2 a3 a4 a5 a6 : ℕ → ℂ),
            HermSymbol D N e →
              HermSymbol D N eh →
                HermSymbol D N a1 →
                  HermSymbol D N a2 →
                    HermSymbol D N a3 →
                      HermSymbol D N a4 →
                        HermSymbol D N a5 →
                          HermSymbol D N a6 →
                            ∀ (𝒩 : (ℕ → ℂ) → ℕ → ℂ),
                              (∀ (f : ℕ → ℂ),
                                  Realisable D N (Transform.tab (Layout.numModes D N) f) →
                                    Realisable D N (Transform.tab (Layout.numModes D N) (𝒩 f))) →
                                ∀ (u : ℕ → ℂ),
                                  Realisable D N (Transform.tab (Layout.numModes D N) u) →
                                    Realisable D N
                                      (Transform.tab (Layout.numModes D N) (Gen.Etdrk.E4step e eh a1 a2 a3 a4 a5 a6 𝒩 u)) :=
  @Exponax.C2R.E4step_preserves_realisable

open Exponax.C2R in
theorem C14_pseudo_spectral_term_preserves_realisable :
    ∀ (D N : ℕ),
      0 < D →
        0 < N →
          ∀ (m : ℕ → ℂ),
            HermSymbol D N m →
              ∀ (g : Array ℂ → Array ℂ),
                (∀ (v : Array ℂ), RealState D N v → ∀ j < N ^ D, ((g v).getD j 0).im = 0) →
                  ∀ (f : ℕ → ℂ),
                    Realisable D N (Transform.tab (Layout.numModes D N) f) →
                      Realisable D N (Transform.tab (Layout.numModes D N) (pseudoNl D N m g f)) :=
  @Exponax.C2R.pseudoNl_preserves_realisable

open Exponax.C2R in
theorem C14_exponential_of_hermitian_symbol :
    ∀ (D N : ℕ) (dt : ℝ) (lam : ℕ → ℂ),
      HermSymbol D N lam → HermSymbol D N fun h ↦ Gen.Etdrk.exp_term (↑dt) (lam h) :=
  @Exponax.C2R.hermSymbol_exp_term

open Exponax.C2R in
theorem C14_contour_coefficients_of_hermitian_symbol :
    ∀ (D N : ℕ) (dt r : ℝ) (M : ℕ) (lam : ℕ → ℂ),
      HermSymbol D N lam →
        (HermSymbol D N fun h ↦ Gen.Etdrk.E1_coef_1 (↑dt) (lam h) M ↑r) ∧
          (HermSymbol D N fun h ↦ Gen.Etdrk.E2_coef_1 (↑dt) (lam h) M ↑r) ∧
            (HermSymbol D N fun h ↦ Gen.Etdrk.E2_coef_2 (↑dt) (lam h) M ↑r) ∧
              (HermSymbol D N fun h ↦ Gen.Etdrk.E3_coef_1 (↑dt) (lam h) M ↑r) ∧
                (HermSymbol D N fun h ↦ Gen.Etdrk.E3_coef_2 (↑dt) (lam h) M ↑r) ∧
                  (HermSymbol D N fun h ↦ Gen.Etdrk.E3_coef_3 (↑dt) (lam h) M ↑r) ∧
                    (HermSymbol D N fun h ↦ Gen.Etdrk.E3_coef_4 (↑dt) (lam h) M ↑r) ∧
                      (HermSymbol D N fun h ↦ Gen.Etdrk.E3_coef_5 (↑dt) (lam h) M ↑r) ∧
                        (HermSymbol D N fun h ↦ Gen.Etdrk.E4_coef_1 (↑dt) (lam h) M ↑r) ∧
                          (HermSymbol D N fun h ↦ Gen.Etdrk.E4_coef_2 (↑dt) (lam h) M ↑r) ∧
                            (HermSymbol D N fun h ↦ Gen.Etdrk.E4_coef_3 (↑dt) (lam h) M ↑r) ∧
                              (HermSymbol D N fun h ↦ Gen.Etdrk.E4_coef_4 (↑dt) (lam h) M ↑r) ∧
                                (HermSymbol D N fun h ↦ Gen.Etdrk.E4_coef_5 (↑dt) (lam h) M ↑r) ∧
                                  HermSymbol D N fun h ↦ Gen.Etdrk.E4_coef_6 (↑dt) (lam h) M ↑r :=
  @Exponax.C2R.hermSymbol_etdrk_coefs

open Exponax.C2R in
theorem C14_regenerated_etdrk_steps_preserve_realisable :
    ∀ (D N : ℕ),
      0 < D →
        0 < N →
          ∀ (dt r : ℝ) (M : ℕ) (lam : ℕ → ℂ),
            HermSymbol D N lam →
              ∀ (𝒩 : (ℕ → ℂ) → ℕ → ℂ),
                (∀ (f : ℕ → ℂ),
                    Realisable D N (Transform.tab (Layout.numModes D N) f) →
                      Realisable D N (Transform.tab (Layout.numModes D N) (𝒩 f))) →
                  ∀ (u : ℕ → ℂ),
                    Realisable D N (Transform.tab (Layout.numModes D N) u) →
                      Realisable D N (Transform.tab (Layout.numModes D N) (etdrk0 dt lam u)) ∧
                        Realisable D N (Transform.tab (Layout.numModes D N) (etdrk1 dt r M lam 𝒩 u)) ∧
                          Realisable D N (Transform.tab (Layout.numModes D N) (etdrk2 dt r M lam 𝒩 u)) ∧
                            Realisable D N (Transform.tab (Layout.numModes D N) (etdrk3 dt r M lam 𝒩 u)) ∧
                              Realisable D N (Transform.tab (Layout.numModes D N) (etdrk4 dt r M lam 𝒩 u)) :=
  @Exponax.C2R.etdrk_steps_preserve_realisable_of_symbol

open Exponax.C2R in
theorem C14_repeated_etdrk2_is_the_loop :
    ∀ (D N : ℕ),
      0 < D →
        0 < N →
          ∀ (dt r : ℝ) (M : ℕ) (lam : ℕ → ℂ),
            HermSymbol D N lam →
              ∀ (m : ℕ → ℂ),
                HermSymbol D N m →
                  ∀ (g : Array ℂ → Array ℂ),
                    (∀ (v : Array ℂ), RealState D N v → ∀ j < N ^ D, ((g v).getD j 0).im = 0) →
                      ∀ (u : Array ℂ),
                        RealState D N u →
                          ∀ (n : ℕ),
                            Loops.repeatN
                                (fun v ↦
                                  Transform.irfftnM D N
                                    (liftStep D N (etdrk2 dt r M lam (pseudoNl D N m g)) (Transform.rfftnM D N v)))
                                n u =
                              Transform.irfftnM D N
                                (Loops.repeatedStepFourier (liftStep D N (etdrk2 dt r M lam (pseudoNl D N m g))) n
                                  (Transform.rfftnM D N u)) :=
  @Exponax.C2R.repeatedStepper_eq_loop_etdrk2

open Exponax.C2R in
theorem C14_repeated_etdrk4_is_the_loop :
    ∀ (D N : ℕ),
      0 < D →
        0 < N →
          ∀ (dt r : ℝ) (M : ℕ) (lam : ℕ → ℂ),
            HermSymbol D N lam →
              ∀ (m : ℕ → ℂ),
                HermSymbol D N m →
                  ∀ (g : Array ℂ → Array ℂ),
                    (∀ (v : Array ℂ), RealState D N v → ∀ j < N ^ D, ((g v).getD j 0).im = 0) →
                      ∀ (u : Array ℂ),
                        RealState D N u →
                          ∀ (n : ℕ),
                            Loops.repeatN
                                (fun v ↦
                                  Transform.irfftnM D N
                                    (liftStep D N (etdrk4 dt r M lam (pseudoNl D N m g)) (Transform.rfftnM D N v)))
                                n u =
                              Transform.irfftnM D N
                                (Loops.repeatedStepFourier (liftStep D N (etdrk4 dt r M lam (pseudoNl D N m g))) n
                                  (Transform.rfftnM D N u)) :=
  @Exponax.C2R.repeatedStepper_eq_loop_etdrk4

open Exponax.C2R in
theorem C14_repeated_etdrk4_is_the_loop_odd_grid :
    ∀ (D N : ℕ),
      0 < D →
        N % 2 = 1 →
          ∀ (dt r : ℝ) (M : ℕ) (ℓ : List ℤ → ℂ),
            (∀ (k : List ℤ), ℓ (List.map (fun x ↦ -x) k) = (starRingEnd ℂ) (ℓ k)) →
              ∀ (m : ℕ → ℂ),
                HermSymbol D N m →
                  ∀ (g : Array ℂ → Array ℂ),
                    (∀ (v : Array ℂ), RealState D N v → ∀ j < N ^ D, ((g v).getD j 0).im = 0) →
                      ∀ (u : Array ℂ),
                        RealState D N u →
                          ∀ (n : ℕ),
                            Loops.repeatN
                                (fun v ↦
                                  Transform.irfftnM D N
                                    (liftStep D N (etdrk4 dt r M (fun h ↦ ℓ (Layout.wnFlat D N h)) (pseudoNl D N m g))
                                      (Transform.rfftnM D N v)))
                                n u =
                              Transform.irfftnM D N
                                (Loops.repeatedStepFourier
                                  (liftStep D N (etdrk4 dt r M (fun h ↦ ℓ (Layout.wnFlat D N h)) (pseudoNl D N m g))) n
                                  (Transform.rfftnM D N u)) :=
  @Exponax.C2R.odd_grid_repeatedStepper_eq_loop_etdrk4

open Exponax.C2R in
theorem C14_odd_grid_exponential_symbol :
    ∀ (D N : ℕ),
      0 < D →
        N % 2 = 1 →
          ∀ (dt : ℝ) (ℓ : List ℤ → ℂ),
            (∀ (k : List ℤ), ℓ (List.map (fun x ↦ -x) k) = (starRingEnd ℂ) (ℓ k)) →
              HermSymbol D N fun h ↦ Gen.Etdrk.exp_term (↑dt) (ℓ (Layout.wnFlat D N h)) :=
  @Exponax.C2R.odd_grid_hermSymbol_exp_term


end Exponax
