import ExponaxModel.Properties.C13_wiring
import ExponaxModel.Proofs.InterfaceAssembly2
import ExponaxModel.Proofs.InterfaceCounterexample
import ExponaxModel.Proofs.SmallGaps2Specific
/-
C13 (continued) — the ASSEMBLED statement: general, normalized and difficulty interfaces give the same step.  Separate file
because the assembly library builds on `Properties/C13.lean` / `C13_wiring.lean` (no import cycle); audited with them.

`Interface.etdrkStep p dt λ M r N u` is the regenerated `exp_term` / `E?_half_exp_term` / `E?_coef_i` fed into the regenerated
`E?step` (orders 0..4), `Interface.baseStep` mirrors `BaseStepper.__init__` + `step_fourier`, and `X_step` is `baseStep` on the
class's regenerated `_linear_operator` and `_stepper_nonlinear_fun` (`Gen.Steppers`, `Gen.StepperWiring`); for the Normalized /
Difficulty classes it is the parent's step on the regenerated `…_super_args`.  The nonlinear scaling laws need a REAL domain
extent (`irfftn` takes real parts; counterexample below); linear and polynomial families hold for complex L too.
-/
set_option linter.unusedVariables false
namespace Exponax

open Exponax.Interface in
theorem C13_step_rescaling_all_orders :
    ∀ (p : ℕ) (dt : ℂ) (lam : Spec) (M : ℕ) (r : ℂ) (N : Spec → Spec) (u : Spec),
      etdrkStep p dt lam M r N u = etdrkStep p 1 (fun ch h ↦ dt * lam ch h) M r (fun v ↦ (fun x x_1 ↦ dt) * N v) u :=
  @Exponax.Interface.etdrkStep_rescale

open Exponax.Interface in
theorem C13_convection_step_normalized :
    ∀ (p D N : ℕ) (df : ℕ × ℕ) (ℓ : ℝ) (dt : ℂ) (a : List ℂ) (b : ℂ) (C : ℕ)
      (single conservative : Bool) (M : ℕ) (r : ℂ) (u : Spec),
      etdrkStep p dt (fun x h ↦ Nonlin.polySymbol (cfgOf D N (↑ℓ) df) (generalLinear D a) h) M r
          (EquivND.liftTermND (cfgOf D N (↑ℓ) df) C (Nonlin.convection (cfgOf D N (↑ℓ) df) C b single conservative)) u =
        etdrkStep p 1
          (fun x h ↦ Nonlin.polySymbol (cfgOf D N 1 df) (generalLinear D (Gen.Convert.normalize_coefficients a (↑ℓ) dt)) h)
          M r
          (EquivND.liftTermND (cfgOf D N 1 df) C
            (Nonlin.convection (cfgOf D N 1 df) C (Gen.Convert.normalize_convection_scale b (↑ℓ) dt) single conservative))
          u :=
  @Exponax.Interface.convection_step_normalized

open Exponax.Interface in
theorem C13_gradient_norm_step_normalized :
    ∀ (p D N : ℕ) (df : ℕ × ℕ) (ℓ : ℝ) (dt : ℂ) (a : List ℂ) (b : ℂ) (C : ℕ) (zeroFix : Bool)
      (M : ℕ) (r : ℂ) (u : Spec),
      etdrkStep p dt (fun x h ↦ Nonlin.polySymbol (cfgOf D N (↑ℓ) df) (generalLinear D a) h) M r
          (EquivND.liftTermND (cfgOf D N (↑ℓ) df) C (Nonlin.gradientNorm (cfgOf D N (↑ℓ) df) C b zeroFix)) u =
        etdrkStep p 1
          (fun x h ↦ Nonlin.polySymbol (cfgOf D N 1 df) (generalLinear D (Gen.Convert.normalize_coefficients a (↑ℓ) dt)) h)
          M r
          (EquivND.liftTermND (cfgOf D N 1 df) C
            (Nonlin.gradientNorm (cfgOf D N 1 df) C (Gen.Convert.normalize_gradient_norm_scale b (↑ℓ) dt) zeroFix))
          u :=
  @Exponax.Interface.gradientNorm_step_normalized

open Exponax.Interface in
theorem C13_general_step_normalized :
    ∀ (p D N : ℕ) (df : ℕ × ℕ) (ℓ : ℝ) (dt : ℂ) (a : List ℂ) (b0 b1 b2 : ℂ) (C : ℕ)
      (zeroFix : Bool) (M : ℕ) (r : ℂ) (u : Spec),
      etdrkStep p dt (fun x h ↦ Nonlin.polySymbol (cfgOf D N (↑ℓ) df) (generalLinear D a) h) M r
          (EquivND.liftTermND (cfgOf D N (↑ℓ) df) C (Nonlin.general (cfgOf D N (↑ℓ) df) C b0 b1 b2 zeroFix)) u =
        etdrkStep p 1
          (fun x h ↦ Nonlin.polySymbol (cfgOf D N 1 df) (generalLinear D (Gen.Convert.normalize_coefficients a (↑ℓ) dt)) h)
          M r
          (EquivND.liftTermND (cfgOf D N 1 df) C
            (Nonlin.general (cfgOf D N 1 df) C (b0 * dt) (Gen.Convert.normalize_convection_scale b1 (↑ℓ) dt)
              (Gen.Convert.normalize_gradient_norm_scale b2 (↑ℓ) dt) zeroFix))
          u :=
  @Exponax.Interface.general_step_normalized

open Exponax.Interface in
theorem C13_general_convection_step_is_documented :
    ∀ (g : Gen.StepperWiring.GeneralConvectionStepperArgs ℂ),
      GeneralConvectionStepper_step g =
        etdrkStep g.order g.dt
          (fun x h ↦
            Nonlin.polySymbol (cfgOf g.num_spatial_dims g.num_points g.domain_extent g.dealiasing_fraction)
              (generalLinear g.num_spatial_dims g.linear_coefficients) h)
          g.num_circle_points g.circle_radius
          (EquivND.liftTermND (cfgOf g.num_spatial_dims g.num_points g.domain_extent g.dealiasing_fraction)
            (if g.single_channel = true then 1 else g.num_spatial_dims)
            (Nonlin.convection (cfgOf g.num_spatial_dims g.num_points g.domain_extent g.dealiasing_fraction)
              (if g.single_channel = true then 1 else g.num_spatial_dims) g.convection_scale g.single_channel
              g.conservative)) :=
  @Exponax.Interface.GeneralConvectionStepper_step_model

open Exponax.Interface in
theorem C13_general_equals_normalized :
    ∀ (g : Gen.StepperWiring.GeneralConvectionStepperArgs ℂ) (ℓ : ℝ),
      g.domain_extent = ↑ℓ →
        GeneralConvectionStepper_step g = NormalizedConvectionStepper_step (GeneralConvectionStepper_to_normalized g) :=
  @Exponax.Interface.GeneralConvectionStepper_step_eq_normalized

open Exponax.Interface in
theorem C13_general_equals_difficulty :
    ∀ (g : Gen.StepperWiring.GeneralConvectionStepperArgs ℂ) (ℓ : ℝ),
      g.domain_extent = ↑ℓ →
        ∀ (Mx : ℂ),
          g.num_spatial_dims ≠ 0 →
            g.num_points ≠ 0 →
              Mx ≠ 0 →
                GeneralConvectionStepper_step g =
                  DifficultyConvectionStepper_step
                    (NormalizedConvectionStepper_to_difficulty (GeneralConvectionStepper_to_normalized g) Mx) :=
  @Exponax.Interface.GeneralConvectionStepper_step_eq_difficulty

open Exponax.Interface in
theorem C13_only_the_groups_matter :
    ∀ (g g' : Gen.StepperWiring.GeneralConvectionStepperArgs ℂ) (ℓ ℓ' : ℝ),
      g.domain_extent = ↑ℓ →
        g'.domain_extent = ↑ℓ' →
          GeneralConvectionStepper_to_normalized g = GeneralConvectionStepper_to_normalized g' →
            GeneralConvectionStepper_step g = GeneralConvectionStepper_step g' :=
  @Exponax.Interface.GeneralConvectionStepper_step_only_groups

open Exponax.Interface in
theorem C13_gradient_norm_general_equals_difficulty :
    ∀ (g : Gen.StepperWiring.GeneralGradientNormStepperArgs ℂ) (ℓ : ℝ),
      g.domain_extent = ↑ℓ →
        ∀ (Mx : ℂ),
          g.num_spatial_dims ≠ 0 →
            g.num_points ≠ 0 →
              Mx ≠ 0 →
                GeneralGradientNormStepper_step g =
                  DifficultyGradientNormStepper_step
                    (NormalizedGradientNormStepper_to_difficulty (GeneralGradientNormStepper_to_normalized g) Mx) :=
  @Exponax.Interface.GeneralGradientNormStepper_step_eq_difficulty

open Exponax.Interface in
theorem C13_nonlinear_general_equals_difficulty :
    ∀ (g : Gen.StepperWiring.GeneralNonlinearStepperArgs ℂ) (ℓ : ℝ),
      g.domain_extent = ↑ℓ →
        ∀ (Mx : ℂ),
          g.num_spatial_dims ≠ 0 →
            g.num_points ≠ 0 →
              Mx ≠ 0 →
                GeneralNonlinearStepper_step g =
                  DifficultyNonlinearStepper_step
                    (NormalizedNonlinearStepper_to_difficulty (GeneralNonlinearStepper_to_normalized g) Mx) :=
  @Exponax.Interface.GeneralNonlinearStepper_step_eq_difficulty

open Exponax.Interface in
theorem C13_polynomial_only_the_groups_matter :
    ∀ (g g' : Gen.StepperWiring.GeneralPolynomialStepperArgs ℂ),
      GeneralPolynomialStepper_to_normalized g = GeneralPolynomialStepper_to_normalized g' →
        GeneralPolynomialStepper_step g = GeneralPolynomialStepper_step g' :=
  @Exponax.Interface.GeneralPolynomialStepper_step_only_groups

open Exponax.Interface in
theorem C13_linear_only_the_groups_matter :
    ∀ (g g' : Gen.StepperWiring.GeneralLinearStepperArgs ℂ),
      GeneralLinearStepper_to_normalized g = GeneralLinearStepper_to_normalized g' →
        GeneralLinearStepper_step g = GeneralLinearStepper_step g' :=
  @Exponax.Interface.GeneralLinearStepper_step_only_groups

open Exponax.Interface in
theorem C13_scaling_needs_real_extent :
    1 *
        Nonlin.at2 (Nonlin.gradientNorm (cfgOf 1 2 Complex.I (0, 0)) 1 1 false #[#[0, 1]]) 0 0 ≠
      Nonlin.at2
        (Nonlin.gradientNorm (cfgOf 1 2 1 (0, 0)) 1 (Gen.Convert.normalize_gradient_norm_scale 1 Complex.I 1) false
          #[#[0, 1]])
        0 0 :=
  @Exponax.Interface.gradientNorm_scaling_false_of_complex_extent


/-! ### step-level "specific = generic": Burgers, KdV (default mixing flags), both KS forms and Fisher–KPP take the same step as
their generic equivalents on the regenerated operators and wiring (Fisher–KPP: the generic zeroth coefficient is r/D; with a₀ = r
the operators differ in 2-D) -/

open Exponax.Interface in
theorem C13_burgers_step_is_general_convection_step :
    ∀ (a : Gen.StepperWiring.BurgersArgs ℂ),
      Burgers_step a = GeneralConvectionStepper_step (Burgers_to_general a) :=
  @Exponax.Interface.Burgers_step_eq_general

open Exponax.Interface in
theorem C13_kdv_step_is_general_convection_step :
    ∀ (a : Gen.StepperWiring.KortewegDeVriesArgs ℂ),
      a.advect_over_diffuse = false →
        a.diffuse_over_diffuse = false →
          KortewegDeVries_step a = GeneralConvectionStepper_step (KortewegDeVries_to_general a) :=
  @Exponax.Interface.KortewegDeVries_step_eq_general

open Exponax.Interface in
theorem C13_ks_conservative_step_is_general_convection_step :
    ∀ (a : Gen.StepperWiring.KuramotoSivashinskyConservativeArgs ℂ),
      KuramotoSivashinskyConservative_step a = GeneralConvectionStepper_step (KuramotoSivashinskyConservative_to_general a) :=
  @Exponax.Interface.KuramotoSivashinskyConservative_step_eq_general

open Exponax.Interface in
theorem C13_ks_step_is_general_gradient_norm_step :
    ∀ (a : Gen.StepperWiring.KuramotoSivashinskyArgs ℂ),
      KuramotoSivashinsky_step a = GeneralGradientNormStepper_step (KuramotoSivashinsky_to_general a) :=
  @Exponax.Interface.KuramotoSivashinsky_step_eq_general

open Exponax.Interface in
theorem C13_fisher_kpp_step_is_general_polynomial_step :
    ∀ (a : Gen.StepperWiring.FisherKPPArgs ℂ),
      a.num_spatial_dims ≠ 0 → FisherKPP_step a = GeneralPolynomialStepper_step (FisherKPP_to_general a) :=
  @Exponax.Interface.FisherKPP_step_eq_general

open Exponax.Interface in
theorem C13_fisher_kpp_zeroth_coefficient_is_r_over_D :
    ∀ (N : ℕ) (L ν r : ℂ),
      r ≠ 0 →
        Gen.Steppers.FisherKPP_linear_operator (kappa (baseCfg 2 N L) 0) ν r ≠
          Gen.Steppers.GeneralPolynomialStepper_linear_operator (kappa (baseCfg 2 N L) 0) [r, 0, ν] :=
  @Exponax.Interface.FisherKPP_documented_a0_false_2d


end Exponax
