import ExponaxModel.Proofs.BaseStepperGenEq
/-
C02 (continued) — the glue between a stepper and its integrator.  `BaseStepper.__init__` (order dispatch: which ETDRK
class is built for `order`, with which `dt`, `num_circle_points`, `circle_radius` — bound through each constructor's real
signature, defaults included), `BaseStepper.step_fourier`, `BaseStepper.step` are REGENERATED from
`exponax/_base_stepper.py` on every run (`Generated/BaseStepperGen.lean`).  The theorems say that a stepper constructed
with `order = p` evaluates exactly the ETDRK-p update (`Interface.etdrkStep`: regenerated coefficient arrays computed
entrywise from the stepper's own linear operator and the USER's `dt`, `M`, `r`, fed to the regenerated stage formulas with
the stepper's own nonlinear function), that `order = 0` is the pure linear propagation, and that `step` is that update
between the model transforms.  Separate file because the library builds on `Properties/C13*.lean`.
-/
set_option linter.unusedVariables false
namespace Exponax
open Exponax.Layout Exponax.Transform Exponax.Nonlin Exponax.Gen.Etdrk Exponax.Gen.StepperWiring Exponax.Gen.Base
open Exponax.Interface Exponax.BaseStepperGenEq

/-- a stepper constructed with `order = p ≤ 4` steps with the ETDRK-p update assembled from ITS OWN linear operator
    (`lam`), ITS OWN nonlinear function (`N`) and the USER's `dt`, `num_circle_points`, `circle_radius` -/
theorem C02_base_stepper_step_is_etdrk (a : BaseStepperArgs ℂ) (h : a.order ≤ 4) (lam : Spec) (N : Spec → Spec)
    (u : Spec) :
    BaseStepper_step_fourier a (entrywiseOf lam) N u
      = some (etdrkStep a.order a.dt lam a.num_circle_points a.circle_radius N u) :=
  BaseStepper_step_fourier_some a h lam N u

/-- every other order is refused by the constructor (`NotImplementedError`), in agreement with the regenerated guard -/
theorem C02_base_stepper_unsupported_order_raises (a : BaseStepperArgs ℂ) (h : 4 < a.order) (lam : Spec)
    (N : Spec → Spec) (u : Spec) :
    BaseStepper_step_fourier a (entrywiseOf lam) N u = none ∧
      Exponax.Gen.Guards.BaseStepper_init_accepts a.num_spatial_dims a.num_points a.num_channels a.order
        ([1] ++ Exponax.Gen.SpectralLayout.wavenumber_shape a.num_spatial_dims a.num_points) = false := by
  refine ⟨BaseStepper_step_fourier_raises a h lam N u, ?_⟩
  have h0 : (a.order == 0) = false := by simp; omega
  have h1 : (a.order == 1) = false := by simp; omega
  have h2 : (a.order == 2) = false := by simp; omega
  have h3 : (a.order == 3) = false := by simp; omega
  have h4 : (a.order == 4) = false := by simp; omega
  simp [Exponax.Gen.Guards.BaseStepper_init_accepts, h0, h1, h2, h3, h4]

/-- the integrator class per order -/
theorem C02_base_stepper_integrator_class (p : ℕ) :
    BaseStepper_init_integrator_class p = if p ≤ 4 then some s!"ETDRK{p}" else none :=
  integrator_class p

/-- "order 0 reduces to the pure linear propagation": whole spectra, `û ↦ e^{dt·λ}·û` entry by entry, whatever the
    nonlinear function, the contour parameters and the channel count are -/
theorem C02_base_stepper_order0_is_linear_propagation (a : BaseStepperArgs ℂ) (h0 : a.order = 0) (lam : Spec)
    (N : Spec → Spec) (u : Spec) :
    BaseStepper_step_fourier a (entrywiseOf lam) N u
      = some (fun ch h => Complex.exp (a.dt * lam ch h) * u ch h) := by
  rw [BaseStepper_step_fourier_some a (by omega), h0]
  rfl

/-- order 1, entry by entry: exponential Euler with the stored contour coefficient of the user's `(dt, M, r)` -/
theorem C02_base_stepper_order1_entrywise (a : BaseStepperArgs ℂ) (h1 : a.order = 1) (lam : Spec)
    (N : Spec → Spec) (u : Spec) :
    BaseStepper_step_fourier a (entrywiseOf lam) N u
      = some (fun ch h => Complex.exp (a.dt * lam ch h) * u ch h
          + E1_coef_1 a.dt (lam ch h) a.num_circle_points a.circle_radius * N u ch h) := by
  rw [BaseStepper_step_fourier_some a (by omega), h1]
  rfl

/-- the step depends on the constructor arguments only through `(order, dt, num_circle_points, circle_radius)` and the
    class's operator / nonlinear function: two configurations that agree on these step identically -/
theorem C02_base_stepper_only_these_arguments_matter (a b : BaseStepperArgs ℂ) (ho : a.order = b.order)
    (hdt : a.dt = b.dt) (hM : a.num_circle_points = b.num_circle_points) (hr : a.circle_radius = b.circle_radius)
    (lam : Spec) (N : Spec → Spec) (u : Spec) :
    BaseStepper_step_fourier a (entrywiseOf lam) N u = BaseStepper_step_fourier b (entrywiseOf lam) N u := by
  rw [BaseStepper_step_fourier_eq, BaseStepper_step_fourier_eq, ho, hdt, hM, hr]

/-- `BaseStepper.step` is `irfftn ∘ step_fourier ∘ rfftn` of the configured `(D, N)`, channel by channel -/
theorem C02_base_stepper_step_between_transforms (a : BaseStepperArgs ℂ) (hD : 1 ≤ a.num_spatial_dims)
    (sf : MC ℂ → Option (MC ℂ)) (u : MC ℂ) :
    BaseStepper_step a sf u
      = (sf (tabC a.num_channels (fun i => rfftnM a.num_spatial_dims a.num_points (u.getD i #[])))).map
          (fun v => tabC a.num_channels (fun i => irfftnM a.num_spatial_dims a.num_points (v.getD i #[]))) :=
  BaseStepper_step_eq a hD sf u

/-- what the constructor stores and hands on: the user's arguments, `dx = L/N`, one derivative operator (of the user's
    `(D, L, N)`, "ij") for both builders -/
theorem C02_base_stepper_constructor_forwards (a : BaseStepperArgs ℂ) :
    BaseStepper_init_derivative_operator_args a = (a.num_spatial_dims, a.domain_extent, a.num_points, "ij") ∧
    BaseStepper_init_builders
      = [("linear_operator", "_build_linear_operator"), ("nonlinear_fun", "_build_nonlinear_fun")] ∧
    BaseStepper_init_attr_dt a = a.dt ∧ BaseStepper_init_attr_dx a = a.domain_extent / (a.num_points : ℂ) :=
  ⟨rfl, rfl, rfl, rfl⟩

/-- non-vacuity: a third-order stepper on a concrete symbol evaluates `etdrkStep 3`; a fifth-order one is refused -/
example : BaseStepper_step_fourier (K := ℂ) ⟨1, 1, 8, 0.1, 1, 3, 16, 1⟩ (entrywiseOf (fun _ h => -(h : ℂ))) id (fun _ _ => 1)
    = some (etdrkStep 3 0.1 (fun _ h => -(h : ℂ)) 16 1 id (fun _ _ => 1)) :=
  BaseStepper_step_fourier_some _ (by decide) _ _ _
example : BaseStepper_step_fourier (K := ℂ) ⟨1, 1, 8, 0.1, 1, 5, 16, 1⟩ (entrywiseOf (fun _ h => -(h : ℂ))) id (fun _ _ => 1)
    = none :=
  BaseStepper_step_fourier_raises _ (by decide) _ _ _

end Exponax
