import ExponaxModel.Properties.C18
import ExponaxModel.Proofs.ICOutputSpectrum
/-
C18 (continuation) — the spectrum OF THE RETURNED ARRAY.

`C18_band_confined`, `C18_diffused_noise_contract` and `C18_gaussian_random_field_contract` describe the half spectrum
HANDED TO `irfftn`.  `irfftn` keeps only the Hermitian part of its argument, so "the output has no Fourier content
outside the cutoff", "the output has mean = offset" and "the output spectrum is the shaped white-noise spectrum" need
the handed-over spectrum to be realisable (Hermitian on the self-conjugate columns: last-axis wavenumber `0`, and Nyquist
for even `N`).  For REAL white noise (and a real offset / real intensity and extent) it is: the mask, the diffusion factor
and the power-law amplitude are real and depend on the `|k_d|` only.  Hence `rfftn(output) = handed-over spectrum` as
whole arrays, for every `D ≥ 1`, `N ≥ 1` (even `N` included).

"Real" is expressed on the model's complex arrays as `im = 0` on the `N^D` grid entries (the size of the noise array is
irrelevant: the transform reads through `getD`).
-/
set_option linter.unusedVariables false
namespace Exponax
open Exponax.IC Exponax.Layout Exponax.Transform

/-- truncated Fourier series, real white noise and real offset: the half spectrum of the RETURNED array is, as a whole
    array, the truncated spectrum that was handed to `irfftn` (`IC.truncatedSpectrum`, read off in `C18_band_confined`) -/
theorem C18_truncated_series_output_spectrum (D N cutoff : ℕ) (hD : 1 ≤ D) (hN : 1 ≤ N) (offset : ℂ)
    (ho : offset.im = 0) (noise : Array ℂ) (hn : ∀ j < N ^ D, (noise.getD j 0).im = 0) :
    rfftnM D N (IC.truncatedSeries D N cutoff offset noise) = IC.truncatedSpectrum D N cutoff offset noise :=
  ICOut.rfftn_truncatedSeries D N cutoff hD hN offset ho noise hn

/-- … hence the RETURNED array has no Fourier content outside the cutoff box: every stored coefficient of the output
    is `offset·N^D` at the mean mode, the white-noise coefficient where all `|k_d| ≤ cutoff`, and ZERO at every other
    stored mode; and the output is a real grid state of `N^D` entries -/
theorem C18_truncated_series_output_band_confined (D N cutoff : ℕ) (hD : 1 ≤ D) (hN : 1 ≤ N) (offset : ℂ)
    (ho : offset.im = 0) (noise : Array ℂ) (hn : ∀ j < N ^ D, (noise.getD j 0).im = 0) :
    (∀ h < numModes D N,
      (rfftnM D N (IC.truncatedSeries D N cutoff offset noise)).getD h 0 =
        if h = 0 then offset * (N : ℂ) ^ D
        else if ∀ kd ∈ wnFlat D N h, |kd| ≤ (cutoff : ℤ) then (rfftnM D N noise).getD h 0 else 0) ∧
    (∀ h < numModes D N, h ≠ 0 → (∃ kd ∈ wnFlat D N h, (cutoff : ℤ) < |kd|) →
      (rfftnM D N (IC.truncatedSeries D N cutoff offset noise)).getD h 0 = 0) ∧
    C2R.RealState D N (IC.truncatedSeries D N cutoff offset noise) := by
  rw [ICOut.rfftn_truncatedSeries D N cutoff hD hN offset ho noise hn]
  exact ⟨fun h hh => truncatedSpectrum_getD D N cutoff offset noise h hh,
    fun h hh h0 hk => truncatedSpectrum_outside D N cutoff offset noise h hh h0 hk,
    ICOut.truncatedSeries_realState D N cutoff hN offset noise⟩

/-- … and the grid mean of the RETURNED array is the requested offset: `jnp.mean(output) = offset`, the grid sum is
    `offset·N^D` (both for ANY noise array — the mean mode is overwritten), and the stored mean mode of the output's
    spectrum is `offset·N^D` (real noise) -/
theorem C18_truncated_series_output_mean_is_offset (D N cutoff : ℕ) (hD : 1 ≤ D) (hN : 1 ≤ N) (offset : ℂ)
    (ho : offset.im = 0) (noise : Array ℂ) :
    IC.mean (IC.truncatedSeries D N cutoff offset noise) = offset ∧
    (∑ j ∈ Finset.range (N ^ D), (IC.truncatedSeries D N cutoff offset noise).getD j 0) = offset * (N : ℂ) ^ D ∧
    ((∀ j < N ^ D, (noise.getD j 0).im = 0) →
      (rfftnM D N (IC.truncatedSeries D N cutoff offset noise)).getD 0 0 = offset * (N : ℂ) ^ D) := by
  refine ⟨ICOut.mean_truncatedSeries D N cutoff hD hN offset ho noise,
    ICOut.sum_truncatedSeries D N cutoff hD hN offset ho noise, fun hn => ?_⟩
  rw [ICOut.rfftn_truncatedSeries D N cutoff hD hN offset ho noise hn]
  exact truncatedSpectrum_zero D N cutoff offset noise (shapeSize_pos _ (wavenumberShape_pos D N hN))

open Exponax.Gen.ICGen in
/-- the same about the REGENERATED `RandomTruncatedFourierSeries.__call__` when no normalisation is active (offset
    range not `(0, 0)`, `std_one = max_one = False`): the spectrum of what the generator returns is the truncated spectrum -/
theorem C18_generated_truncated_series_output_spectrum (D cutoff : ℕ) (orange : ℂ × ℂ) (N : ℕ) (hD : 1 ≤ D)
    (hN : 1 ≤ N) (hr : (HasIsZero.isZero orange.1 && HasIsZero.isZero orange.2) = false) (offset : ℂ)
    (ho : offset.im = 0) (noise : Array ℂ) (hn : ∀ j < N ^ D, (noise.getD j 0).im = 0) :
    rfftnM D N (RandomTruncatedFourierSeries_call D cutoff orange false false N noise offset)
      = IC.truncatedSpectrum D N cutoff offset noise := by
  rw [C18_generated_truncated_series, hr, ICOut.normalizeIc_off]
  exact ICOut.rfftn_truncatedSeries D N cutoff hD hN offset ho noise hn

/-- diffused noise, real white noise, real intensity `ν` and real extent `L` (no sign condition is needed; in
    particular `ν ≥ 0`, `L > 0`): the half spectrum of the un-normalised RETURNED array is, as a whole array,
    `kernel ⊙ rfftn(noise)` with `kernel_h = exp(−ν (2π/L)² |k(h)|²)` -/
theorem C18_diffused_noise_output_spectrum (D N : ℕ) (hD : 1 ≤ D) (hN : 1 ≤ N) (L ν : ℝ) (noise : Array ℂ)
    (hn : ∀ j < N ^ D, (noise.getD j 0).im = 0) :
    rfftnM D N (irfftnM D N (IC2.diffusedSpectrum D N (L : ℂ) (ν : ℂ) noise))
        = IC2.diffusedSpectrum D N (L : ℂ) (ν : ℂ) noise ∧
    IC2.diffusedSpectrum D N (L : ℂ) (ν : ℂ) noise
        = tab (numModes D N) (fun h => IC2.diffusionKernel D N (L : ℂ) (ν : ℂ) h * (rfftnM D N noise).getD h 0) ∧
    ∀ h < numModes D N,
      (rfftnM D N (irfftnM D N (IC2.diffusedSpectrum D N (L : ℂ) (ν : ℂ) noise))).getD h 0
        = ((Real.exp (-(ν * ((2 * Real.pi / L) * (2 * Real.pi / L)) * ((normSq (wnFlat D N h) : ℤ) : ℝ))) : ℝ) : ℂ)
            * (rfftnM D N noise).getD h 0 := by
  refine ⟨ICOut.rfftn_irfftn_diffusedSpectrum D N hD hN L ν noise hn, rfl, ?_⟩
  intro h hh
  rw [ICOut.rfftn_irfftn_diffusedSpectrum D N hD hN L ν noise hn]
  unfold IC2.diffusedSpectrum IC2.diffusionKernel
  rw [DFT.tab_getD _ _ _ _ hh]
  simp

open Exponax.Gen.IC2 in
/-- the same about the REGENERATED `DiffusedNoise.__call__` with all normalisation flags off: the spectrum of what the
    generator returns is `kernel ⊙ rfftn(white noise)` -/
theorem C18_generated_diffused_noise_output_spectrum {Key : Type} (wn : ℕ → Key → Array ℂ) (D N : ℕ) (L ν : ℝ)
    (key : Key) (hD : 1 ≤ D) (hN : 1 ≤ N) (hn : ∀ j < N ^ D, ((wn N key).getD j 0).im = 0) :
    rfftnM D N (DiffusedNoise_call wn (DiffusedNoise_init D (L : ℂ) (ν : ℂ) false false false) N key)
      = IC2.diffusedSpectrum D N (L : ℂ) (ν : ℂ) (wn N key) := by
  rw [(C18_diffused_noise_contract wn D N (L : ℂ) (ν : ℂ) false false false key hD hN).1, ICOut.normalizeIc_off]
  exact ICOut.rfftn_irfftn_diffusedSpectrum D N hD hN L ν (wn N key) hn

/-- Gaussian random field, real white noise: the half spectrum of the un-normalised RETURNED array is, as a whole
    array, the power-law shaped white-noise spectrum (mean mode untouched, other modes × `‖2π/L·k‖^(−e/2)`).  Holds
    for EVERY `L`, `e` because the model's real power (`HasRpow ℂ`) acts on real parts, so the amplitude is real -/
theorem C18_gaussian_random_field_output_spectrum (D N : ℕ) (hD : 1 ≤ D) (hN : 1 ≤ N) (L e : ℂ) (noise : Array ℂ)
    (hn : ∀ j < N ^ D, (noise.getD j 0).im = 0) :
    rfftnM D N (irfftnM D N (IC2.grfSpectrum D N L e noise)) = IC2.grfSpectrum D N L e noise ∧
    ∀ h < numModes D N,
      (rfftnM D N (irfftnM D N (IC2.grfSpectrum D N L e noise))).getD h 0
        = (rfftnM D N noise).getD h 0 * if h = 0 then 1 else HasRpow.rpow (IC2.wnNorm D N L h) (-e / 2) := by
  refine ⟨ICOut.rfftn_irfftn_grfSpectrum D N hD hN L e noise hn, ?_⟩
  intro h hh
  rw [ICOut.rfftn_irfftn_grfSpectrum D N hD hN L e noise hn]
  unfold IC2.grfSpectrum IC2.powerLawAmplitude
  rw [DFT.tab_getD _ _ _ _ hh]
  by_cases h0 : h = 0 <;> simp [h0]

open Exponax.Gen.IC2 in
/-- the same about the REGENERATED `GaussianRandomField.__call__` with all normalisation flags off -/
theorem C18_generated_gaussian_random_field_output_spectrum {Key : Type} (wn : ℕ → Key → Array ℂ) (D N : ℕ)
    (L e : ℂ) (key : Key) (hD : 1 ≤ D) (hN : 1 ≤ N) (hn : ∀ j < N ^ D, ((wn N key).getD j 0).im = 0) :
    rfftnM D N (GaussianRandomField_call wn (GaussianRandomField_init D L e false false false) N key)
      = IC2.grfSpectrum D N L e (wn N key) := by
  rw [(C18_gaussian_random_field_contract wn D N L e false false false key hD hN).1, ICOut.normalizeIc_off]
  exact ICOut.rfftn_irfftn_grfSpectrum D N hD hN L e (wn N key) hn

/-! ### non-vacuity -/

/-- the hypotheses are satisfiable: a real offset and a real, non-constant noise array on the even grid `N = 4`
    (`D = 1`), and on the `2 × 2` grid -/
example : ((3 : ℂ)).im = 0 ∧ (∀ j < 4 ^ 1, ((#[(1 : ℂ), -1, 2, 0] : Array ℂ).getD j 0).im = 0) ∧
    (∀ j < 2 ^ 2, ((#[(1 : ℂ), -1, 2, 0] : Array ℂ).getD j 0).im = 0) := by
  refine ⟨by simp, ?_, ?_⟩ <;>
  · intro j hj
    have : j = 0 ∨ j = 1 ∨ j = 2 ∨ j = 3 := by omega
    rcases this with rfl | rfl | rfl | rfl <;> simp

/-- … so the conclusions hold for them (cutoff `1` on `N = 4`: the Nyquist mode is removed from the OUTPUT) -/
example : rfftnM 1 4 (IC.truncatedSeries 1 4 1 3 #[(1 : ℂ), -1, 2, 0]) = IC.truncatedSpectrum 1 4 1 3 #[(1 : ℂ), -1, 2, 0] ∧
    IC.mean (IC.truncatedSeries 1 4 1 3 #[(1 : ℂ), -1, 2, 0]) = 3 := by
  have hn : ∀ j < 4 ^ 1, ((#[(1 : ℂ), -1, 2, 0] : Array ℂ).getD j 0).im = 0 := by
    intro j hj
    have : j = 0 ∨ j = 1 ∨ j = 2 ∨ j = 3 := by omega
    rcases this with rfl | rfl | rfl | rfl <;> simp
  exact ⟨C18_truncated_series_output_spectrum 1 4 1 (by norm_num) (by norm_num) 3 (by simp) _ hn,
    (C18_truncated_series_output_mean_is_offset 1 4 1 (by norm_num) (by norm_num) 3 (by simp) _).1⟩

/-- the stored modes outside the cutoff exist (so "zero outside" is not an empty statement): on `N = 4`, `D = 1`,
    cutoff `1`, the Nyquist mode `h = 2` is a stored non-mean mode with `|k| = 2 > 1` -/
example : (2 : ℕ) < numModes 1 4 ∧ (2 : ℕ) ≠ 0 ∧ ∃ kd ∈ wnFlat 1 4 2, ((1 : ℕ) : ℤ) < |kd| := by decide

/-- diffused noise with `ν = 1/10 ≥ 0`, `L = 1 > 0` on the `2 × 2` grid -/
example : rfftnM 2 2 (irfftnM 2 2 (IC2.diffusedSpectrum 2 2 ((1 : ℝ) : ℂ) (((1 : ℝ) / 10 : ℝ) : ℂ) #[(1 : ℂ), -1, 2, 0]))
    = IC2.diffusedSpectrum 2 2 ((1 : ℝ) : ℂ) (((1 : ℝ) / 10 : ℝ) : ℂ) #[(1 : ℂ), -1, 2, 0] := by
  refine (C18_diffused_noise_output_spectrum 2 2 (by norm_num) (by norm_num) 1 (1 / 10) _ ?_).1
  intro j hj
  have : j = 0 ∨ j = 1 ∨ j = 2 ∨ j = 3 := by omega
  rcases this with rfl | rfl | rfl | rfl <;> simp

end Exponax
