import ExponaxModel.Properties.C11
import ExponaxModel.Proofs.SmallGaps4Isometry
/-
C11 (continued) — "advection and dispersion preserve the norm exactly on odd grids AND ON NYQUIST-FREE STATES".
`Properties/C11.lean` has the criterion (`C11_isometry_iff`) and discharges it on odd grids (`C11_advection_isometry_odd`,
`C11_dispersion_isometry_odd`).  Here the criterion is discharged on EVERY grid size, even included, for every real state
whose stored spectrum vanishes at the modes with a Nyquist component (`ExactLinear.BandLimited`): at a self-conjugate
stored mode either the conjugate partner carries the opposite wave vector (then a Hermitian-symmetric symbol gives a
Hermitian-consistent propagator) or the mode has a Nyquist component (then the state has no content there).
That the Nyquist-free hypothesis cannot be dropped on even grids is `C11_nyquist_loss`.
-/
set_option linter.unusedVariables false
namespace Exponax
open Exponax.Nonlin Exponax.Gen.Etdrk Finset

/-- every grid size: a stored mode on a self-conjugate column (`herm_weight = 1`) either has its conjugate partner
    `conjIdx` at the OPPOSITE wave vector, or it is not strictly below Nyquist (some `|k_d| = N/2`, `N` even) -/
theorem C11_selfconj_mode_negated_or_nyquist (D N h : ℕ) (hD : 0 < D) (hN : 0 < N) (hh : h < Layout.numModes D N)
    (hw : Transform.herm_weight D N h = 1) :
    (∀ d < D, (Layout.wnFlat D N (C2R.conjIdx D N h)).getD d 0 = -(Layout.wnFlat D N h).getD d 0)
      ∨ ¬ ExactLinear.BelowNyquist D N (Layout.wnFlat D N h) :=
  SmallGaps.selfconj_negated_or_nyquist D N h hD hN hh hw

/-- the condition of `C11_isometry_iff` holds for the regenerated propagator `exp_term dt λ` of every
    Hermitian-symmetric symbol on every real-`dt`, every Nyquist-free state, EVERY grid size -/
theorem C11_isometry_condition_nyquist_free (D N : ℕ) (hD : 0 < D) (hN : 0 < N) (Λ : ℕ → ℂ)
    (hΛ : ExactLinear.HermSym D N Λ) (u : Array ℂ) (hb : ExactLinear.BandLimited D N u) (dt : ℝ) :
    ∀ h < Layout.numModes D N, Transform.herm_weight D N h = 1 →
      (exp_term (dt : ℂ) (Λ h) = (starRingEnd ℂ) (exp_term (dt : ℂ) (Λ (C2R.conjIdx D N h)))
        ∨ (Transform.rfftnM D N u).getD h 0 = 0) :=
  fun h hh hw => SmallGaps.isometry_condition_of_hermSym_bandLimited D N hD hN Λ hΛ u hb dt h hh hw

/-- THE PROPERTY on Nyquist-free states, general form: every `D ≥ 1`, EVERY `N ≥ 1` (even included), every real `dt`,
    every Hermitian-symmetric symbol with `Re λ = 0` on the stored modes, every real state whose stored spectrum vanishes at
    the modes with a Nyquist component: the step (regenerated `E0step`, `exp_term`; `rfftn` → multiply → `irfftn`)
    preserves the grid 2-norm exactly -/
theorem C11_isometry_nyquist_free_of_hermitian_imaginary_symbol (D N : ℕ) (hD : 0 < D) (hN : 0 < N) (u : Array ℂ)
    (hu : ∀ j < N ^ D, (u.getD j 0).im = 0) (hb : ExactLinear.BandLimited D N u) (dt : ℝ) (Λ : ℕ → ℂ)
    (hΛ : ExactLinear.HermSym D N Λ) (hre : ∀ h < Layout.numModes D N, (Λ h).re = 0) :
    ∑ j ∈ range (N ^ D), ((Transform.irfftnM D N (Transform.tab (Layout.numModes D N) fun h =>
        E0step (exp_term (dt : ℂ) (Λ h)) ((Transform.rfftnM D N u).getD h 0))).getD j 0).re ^ 2
      = ∑ j ∈ range (N ^ D), (u.getD j 0).re ^ 2 :=
  SmallGaps.linear_step_isometry_of_hermSym_bandLimited D N hD hN u hu hb dt Λ hΛ hre

/-- … and over whole rollouts: after ANY number `n` of steps the grid 2-norm of a real Nyquist-free state is unchanged -/
theorem C11_rollout_isometry_nyquist_free (D N : ℕ) (hD : 0 < D) (hN : 0 < N) (u : Array ℂ) (hsz : u.size = N ^ D)
    (hu : ∀ j < N ^ D, (u.getD j 0).im = 0) (hb : ExactLinear.BandLimited D N u) (dt : ℝ) (Λ : ℕ → ℂ)
    (hΛ : ExactLinear.HermSym D N Λ) (hre : ∀ h < Layout.numModes D N, (Λ h).re = 0) (n : ℕ) :
    ∑ j ∈ range (N ^ D), (((ExactLinear.linStep D N Λ (dt : ℂ))^[n] u).getD j 0).re ^ 2
      = ∑ j ∈ range (N ^ D), (u.getD j 0).re ^ 2 :=
  SmallGaps.linear_rollout_isometry_of_hermSym_bandLimited D N hD hN u hsz hu hb dt Λ hΛ hre n

/-- advection `−v·∇` (real velocity vector `v`): norm preserved exactly for every real Nyquist-free state, every
    `D ≥ 1`, EVERY `N ≥ 1`, every real `dt` -/
theorem C11_advection_isometry_nyquist_free (c : Cfg ℂ) (hD : 0 < c.D) (hN : 0 < c.N) (s : ℝ) (hs : c.s = (s : ℂ))
    (v : ℕ → ℝ) (u : Array ℂ) (hu : ∀ j < c.N ^ c.D, (u.getD j 0).im = 0)
    (hb : ExactLinear.BandLimited c.D c.N u) (dt : ℝ) :
    ∑ j ∈ range (c.N ^ c.D), ((Transform.irfftnM c.D c.N (Transform.tab (Layout.numModes c.D c.N) fun h =>
        E0step (exp_term (dt : ℂ) (polySymbol c (pscale (-1) (gradInner c.D (fun d => ((v d : ℝ) : ℂ)) 1)) h))
          ((Transform.rfftnM c.D c.N u).getD h 0))).getD j 0).re ^ 2
      = ∑ j ∈ range (c.N ^ c.D), (u.getD j 0).re ^ 2 :=
  SmallGaps.advection_isometry_bandLimited c hD hN s hs v u hu hb dt

/-- dispersion `ξ·∇³` (real dispersivity vector `ξ`): the same -/
theorem C11_dispersion_isometry_nyquist_free (c : Cfg ℂ) (hD : 0 < c.D) (hN : 0 < c.N) (s : ℝ) (hs : c.s = (s : ℂ))
    (ξ : ℕ → ℝ) (u : Array ℂ) (hu : ∀ j < c.N ^ c.D, (u.getD j 0).im = 0)
    (hb : ExactLinear.BandLimited c.D c.N u) (dt : ℝ) :
    ∑ j ∈ range (c.N ^ c.D), ((Transform.irfftnM c.D c.N (Transform.tab (Layout.numModes c.D c.N) fun h =>
        E0step (exp_term (dt : ℂ) (polySymbol c (gradInner c.D (fun d => ((ξ d : ℝ) : ℂ)) 3) h))
          ((Transform.rfftnM c.D c.N u).getD h 0))).getD j 0).re ^ 2
      = ∑ j ∈ range (c.N ^ c.D), (u.getD j 0).re ^ 2 :=
  SmallGaps.dispersion_isometry_bandLimited c hD hN s hs ξ u hu hb dt

/-- dispersion in the mixed form `(ξ·∇)(∇·∇)`: the same -/
theorem C11_dispersion_mixed_isometry_nyquist_free (c : Cfg ℂ) (hD : 0 < c.D) (hN : 0 < c.N) (s : ℝ)
    (hs : c.s = (s : ℂ)) (ξ : ℕ → ℝ) (u : Array ℂ) (hu : ∀ j < c.N ^ c.D, (u.getD j 0).im = 0)
    (hb : ExactLinear.BandLimited c.D c.N u) (dt : ℝ) :
    ∑ j ∈ range (c.N ^ c.D), ((Transform.irfftnM c.D c.N (Transform.tab (Layout.numModes c.D c.N) fun h =>
        E0step (exp_term (dt : ℂ)
          (polySymbol c (pmul (gradInner c.D (fun d => ((ξ d : ℝ) : ℂ)) 1) (lapT c.D 1 2)) h))
          ((Transform.rfftnM c.D c.N u).getD h 0))).getD j 0).re ^ 2
      = ∑ j ∈ range (c.N ^ c.D), (u.getD j 0).re ^ 2 :=
  SmallGaps.dispersion_mixed_isometry_bandLimited c hD hN s hs ξ u hu hb dt

/-- the Nyquist-free states are exactly reachable: every finite superposition `Σ a_m cos(2π κ_m·j/N + φ_m)` of modes
    strictly below Nyquist is a real Nyquist-free state, so advection preserves its norm on every grid -/
theorem C11_advection_isometry_superposition (c : Cfg ℂ) (hD : 0 < c.D) (hN : 0 < c.N) (s : ℝ) (hs : c.s = (s : ℂ))
    (v : ℕ → ℝ) (ms : ExactLinear.Modes) (hms : ∀ m ∈ ms, ExactLinear.BelowNyquist c.D c.N m.1) (dt : ℝ) :
    ∑ j ∈ range (c.N ^ c.D), ((Transform.irfftnM c.D c.N (Transform.tab (Layout.numModes c.D c.N) fun h =>
        E0step (exp_term (dt : ℂ) (polySymbol c (pscale (-1) (gradInner c.D (fun d => ((v d : ℝ) : ℂ)) 1)) h))
          ((Transform.rfftnM c.D c.N (ExactLinear.stateOf c.D c.N ms)).getD h 0))).getD j 0).re ^ 2
      = ∑ j ∈ range (c.N ^ c.D), ((ExactLinear.stateOf c.D c.N ms).getD j 0).re ^ 2 :=
  SmallGaps.advection_isometry_bandLimited c hD hN s hs v _ (ExactLinear.stateOf_real c.D c.N ms)
    (ExactLinear.bandLimited_stateOf c.D c.N hD hN ms hms) dt

/-- non-vacuity on an EVEN grid: a configuration with `D = 2`, `N = 4`, a real Nyquist-free state of the right size (the
    mode `(1, 1)`), and a self-conjugate stored mode (index 5, wave vector `(1, 2)`) that IS a Nyquist mode, i.e. the case
    in which the odd-grid theorem does not apply and the band-limitedness is what is used -/
example : ∃ c : Cfg ℂ, ∃ s : ℝ, ∃ u : Array ℂ, c.s = (s : ℂ) ∧ 0 < c.D ∧ 0 < c.N ∧ c.N % 2 = 0 ∧
    u.size = c.N ^ c.D ∧ (∀ j < c.N ^ c.D, (u.getD j 0).im = 0) ∧ ExactLinear.BandLimited c.D c.N u ∧
    (5 : ℕ) < Layout.numModes c.D c.N ∧ Transform.herm_weight c.D c.N 5 = 1 := by
  have hms : ∀ m ∈ ([([1, 1], 2, 0.5)] : ExactLinear.Modes), ExactLinear.BelowNyquist 2 4 m.1 := by
    intro m hm
    simp only [List.mem_cons, List.mem_nil_iff, or_false] at hm
    subst hm
    exact ⟨rfl, by intro d hd; interval_cases d <;> simp⟩
  exact ⟨{ D := 2, N := 4, s := ((1 : ℝ) : ℂ), fp := 2, fq := 3 }, 1, ExactLinear.stateOf 2 4 [([1, 1], 2, 0.5)],
    rfl, by decide, by decide, by decide, by simp, ExactLinear.stateOf_real 2 4 _,
    ExactLinear.bandLimited_stateOf 2 4 (by norm_num) (by norm_num) _ hms, by decide, by decide⟩

end Exponax
