import ExponaxModel.Proofs.Contour
/-
C02 — ETDRK steppers realise the order-p exponential Runge–Kutta scheme exactly.

Everything here is about `Gen.Etdrk.*`, the definitions regenerated from
`exponax/etdrk/*.py` on every run.
-/
set_option linter.unusedVariables false
namespace Exponax
open Exponax.Spec Exponax.Gen.Etdrk

/-! ### closed forms under the contour integral are the Cox–Matthews φ-combinations -/

theorem C02_cform_E1 (z r ζ : ℂ) :
    E1_scan_body_0 z r ζ = phi1 (r * ζ + z) := by
  simp [E1_scan_body_0, phi1]

theorem C02_cform_E2_1 (z r ζ : ℂ) :
    E2_scan_body_0 z r ζ = phi1 (r * ζ + z) := by
  simp [E2_scan_body_0, phi1]

theorem C02_cform_E2_2 (z r ζ : ℂ) :
    E2_scan_body_1 z r ζ = phi2 (r * ζ + z) := by
  simp [E2_scan_body_1, phi2, pow_two]

/-- half-step coefficient: `(e^{w/2} − 1)/w = φ₁(w/2)/2` -/
theorem C02_cform_E3_1 (z r ζ : ℂ) :
    E3_scan_body_0 z r ζ = phi1 ((r * ζ + z) / 2) / 2 := by
  simp only [E3_scan_body_0, phi1, hasExp_complex, lit_eq]
  push_cast
  rcases eq_or_ne (r * ζ + z) 0 with h | h
  · simp [h]
  · field_simp

theorem C02_cform_E3_2 (z r ζ : ℂ) :
    E3_scan_body_1 z r ζ = phi1 (r * ζ + z) := by
  simp [E3_scan_body_1, phi1]

theorem C02_cform_E3_3 (z r ζ : ℂ) :
    E3_scan_body_2 z r ζ = phi1 (r * ζ + z) - 3 * phi2 (r * ζ + z) + 4 * phi3 (r * ζ + z) := by
  simp only [E3_scan_body_2, phi1, phi2, phi3, hasExp_complex, lit_eq, npow_eq]
  push_cast
  field_simp
  ring

theorem C02_cform_E3_4 (z r ζ : ℂ) :
    E3_scan_body_3 z r ζ = 4 * phi2 (r * ζ + z) - 8 * phi3 (r * ζ + z) := by
  simp only [E3_scan_body_3, phi2, phi3, hasExp_complex, lit_eq, npow_eq]
  push_cast
  field_simp
  ring

theorem C02_cform_E3_5 (z r ζ : ℂ) :
    E3_scan_body_4 z r ζ = 4 * phi3 (r * ζ + z) - phi2 (r * ζ + z) := by
  simp only [E3_scan_body_4, phi2, phi3, hasExp_complex, lit_eq, npow_eq]
  push_cast
  field_simp
  ring

theorem C02_cform_E4_1 (z r ζ : ℂ) :
    E4_scan_body_0 z r ζ = phi1 ((r * ζ + z) / 2) / 2 := by
  simp only [E4_scan_body_0, phi1, hasExp_complex, lit_eq]
  push_cast
  rcases eq_or_ne (r * ζ + z) 0 with h | h
  · simp [h]
  · field_simp

theorem C02_cform_E4_4 (z r ζ : ℂ) :
    E4_scan_body_1 z r ζ = phi1 (r * ζ + z) - 3 * phi2 (r * ζ + z) + 4 * phi3 (r * ζ + z) := by
  simp only [E4_scan_body_1, phi1, phi2, phi3, hasExp_complex, lit_eq, npow_eq]
  push_cast
  field_simp
  ring

/-- the stage formula applies this one with the factor 2: Cox–Matthews' `2φ₂ − 4φ₃` -/
theorem C02_cform_E4_5 (z r ζ : ℂ) :
    E4_scan_body_2 z r ζ = phi2 (r * ζ + z) - 2 * phi3 (r * ζ + z) := by
  simp only [E4_scan_body_2, phi2, phi3, hasExp_complex, lit_eq, npow_eq]
  push_cast
  field_simp
  ring

theorem C02_cform_E4_6 (z r ζ : ℂ) :
    E4_scan_body_3 z r ζ = 4 * phi3 (r * ζ + z) - phi2 (r * ζ + z) := by
  simp only [E4_scan_body_3, phi2, phi3, hasExp_complex, lit_eq, npow_eq]
  push_cast
  field_simp
  ring


/-! ### every stored coefficient is `dt ×` the contour mean of its φ-combination at `z = L·dt`

(`_exp_term = e^{dt·L}`, `_half_exp_term = e^{dt·L/2}`; the contour mean is over the `M`
nodes `z + r·ζ_j` produced by the regenerated `roots_of_unity`.) -/

theorem C02_exp_term (dt L : ℂ) : exp_term dt L = Complex.exp (dt * L) := by
  simp [exp_term]

theorem C02_half_exp_term_E3 (dt L r : ℂ) (M : ℕ) : E3_half_exp_term dt L M r = Complex.exp (dt * L / 2) := by
  simp only [E3_half_exp_term, hasExp_complex, qlit_eq]; congr 1; push_cast; ring

theorem C02_half_exp_term_E4 (dt L r : ℂ) (M : ℕ) : E4_half_exp_term dt L M r = Complex.exp (dt * L / 2) := by
  simp only [E4_half_exp_term, hasExp_complex, qlit_eq]; congr 1; push_cast; ring

theorem C02_coef_E1_1 (dt L r : ℂ) (M : ℕ) :
    E1_coef_1 dt L M r = dt * contourMean (roots_of_unity M) r phi1 (L * dt) := by
  simp only [E1_coef_1, lit_eq]
  exact coef_as_contourMean dt (L * dt) r M _ _ (fun ζ => C02_cform_E1 (L * dt) r ζ)

theorem C02_coef_E2_1 (dt L r : ℂ) (M : ℕ) :
    E2_coef_1 dt L M r = dt * contourMean (roots_of_unity M) r phi1 (L * dt) := by
  simp only [E2_coef_1, lit_eq]
  exact coef_as_contourMean dt (L * dt) r M _ _ (fun ζ => C02_cform_E2_1 (L * dt) r ζ)

theorem C02_coef_E2_2 (dt L r : ℂ) (M : ℕ) :
    E2_coef_2 dt L M r = dt * contourMean (roots_of_unity M) r phi2 (L * dt) := by
  simp only [E2_coef_2, lit_eq]
  exact coef_as_contourMean dt (L * dt) r M _ _ (fun ζ => C02_cform_E2_2 (L * dt) r ζ)

theorem C02_coef_E3_1 (dt L r : ℂ) (M : ℕ) :
    E3_coef_1 dt L M r = dt * contourMean (roots_of_unity M) r (fun w => phi1 (w / 2) / 2) (L * dt) := by
  simp only [E3_coef_1, lit_eq]
  exact coef_as_contourMean dt (L * dt) r M _ _ (fun ζ => C02_cform_E3_1 (L * dt) r ζ)

theorem C02_coef_E3_2 (dt L r : ℂ) (M : ℕ) :
    E3_coef_2 dt L M r = dt * contourMean (roots_of_unity M) r phi1 (L * dt) := by
  simp only [E3_coef_2, lit_eq]
  exact coef_as_contourMean dt (L * dt) r M _ _ (fun ζ => C02_cform_E3_2 (L * dt) r ζ)

theorem C02_coef_E3_3 (dt L r : ℂ) (M : ℕ) :
    E3_coef_3 dt L M r = dt * contourMean (roots_of_unity M) r
      (fun w => phi1 w - 3 * phi2 w + 4 * phi3 w) (L * dt) := by
  simp only [E3_coef_3, lit_eq]
  exact coef_as_contourMean dt (L * dt) r M _ _ (fun ζ => C02_cform_E3_3 (L * dt) r ζ)

theorem C02_coef_E3_4 (dt L r : ℂ) (M : ℕ) :
    E3_coef_4 dt L M r = dt * contourMean (roots_of_unity M) r
      (fun w => 4 * phi2 w - 8 * phi3 w) (L * dt) := by
  simp only [E3_coef_4, lit_eq]
  exact coef_as_contourMean dt (L * dt) r M _ _ (fun ζ => C02_cform_E3_4 (L * dt) r ζ)

theorem C02_coef_E3_5 (dt L r : ℂ) (M : ℕ) :
    E3_coef_5 dt L M r = dt * contourMean (roots_of_unity M) r
      (fun w => 4 * phi3 w - phi2 w) (L * dt) := by
  simp only [E3_coef_5, lit_eq]
  exact coef_as_contourMean dt (L * dt) r M _ _ (fun ζ => C02_cform_E3_5 (L * dt) r ζ)

theorem C02_coef_E4_1 (dt L r : ℂ) (M : ℕ) :
    E4_coef_1 dt L M r = dt * contourMean (roots_of_unity M) r (fun w => phi1 (w / 2) / 2) (L * dt) := by
  simp only [E4_coef_1, lit_eq]
  exact coef_as_contourMean dt (L * dt) r M _ _ (fun ζ => C02_cform_E4_1 (L * dt) r ζ)

/-- ETDRK4 reuses the half-step coefficient for stages 2 and 3 -/
theorem C02_coef_E4_2_3 (dt L r : ℂ) (M : ℕ) :
    E4_coef_2 dt L M r = E4_coef_1 dt L M r ∧ E4_coef_3 dt L M r = E4_coef_1 dt L M r := ⟨rfl, rfl⟩

theorem C02_coef_E4_4 (dt L r : ℂ) (M : ℕ) :
    E4_coef_4 dt L M r = dt * contourMean (roots_of_unity M) r
      (fun w => phi1 w - 3 * phi2 w + 4 * phi3 w) (L * dt) := by
  simp only [E4_coef_4, lit_eq]
  exact coef_as_contourMean dt (L * dt) r M _ _ (fun ζ => C02_cform_E4_4 (L * dt) r ζ)

theorem C02_coef_E4_5 (dt L r : ℂ) (M : ℕ) :
    E4_coef_5 dt L M r = dt * contourMean (roots_of_unity M) r
      (fun w => phi2 w - 2 * phi3 w) (L * dt) := by
  simp only [E4_coef_5, lit_eq]
  exact coef_as_contourMean dt (L * dt) r M _ _ (fun ζ => C02_cform_E4_5 (L * dt) r ζ)

theorem C02_coef_E4_6 (dt L r : ℂ) (M : ℕ) :
    E4_coef_6 dt L M r = dt * contourMean (roots_of_unity M) r
      (fun w => 4 * phi3 w - phi2 w) (L * dt) := by
  simp only [E4_coef_6, lit_eq]
  exact coef_as_contourMean dt (L * dt) r M _ _ (fun ζ => C02_cform_E4_6 (L * dt) r ζ)

/-! ### the contour rule is exact on the degree-`< M` Taylor part, and avoids the singularity -/

theorem C02_contour_exact_poly (M : ℕ) (hM : 0 < M) (r z : ℂ) (a : ℕ → ℂ) :
    contourMean (roots_of_unity M) r (fun w => ∑ n ∈ Finset.range M, a n * (w - z) ^ n) z = a 0 :=
  contourMean_poly M hM r z a

/-- all nodes sit at distance `|r|` from `z`, so the closed forms are evaluated away from
    their removable singularity `w = 0` whenever `|z| ≠ |r|` (in particular at `z = 0`) -/
theorem C02_contour_avoids_zero (M j : ℕ) (r z : ℂ) (h : ‖z‖ ≠ ‖r‖) :
    r * root_of_unity M j + z ≠ 0 := by
  intro h0
  have h1 : r * root_of_unity M j = -z := by linear_combination h0
  have := congrArg norm h1
  rw [norm_mul, norm_root_of_unity, mul_one, norm_neg] at this
  exact h this.symm

/-! ### the stage formulas are the Cox–Matthews schemes (any commutative ring of "vectors":
    `ι → ℂ` with pointwise operations in particular; `N` is an arbitrary nonlinear map) -/

theorem C02_step_E0 {V : Type} [CommRing V] (E u : V) : E0step E u = E * u := rfl

theorem C02_step_E1 {V : Type} [CommRing V] (E a1 : V) (N : V → V) (u : V) :
    E1step E a1 N u = cm1 E a1 N u := rfl

theorem C02_step_E2 {V : Type} [CommRing V] (E a1 a2 : V) (N : V → V) (u : V) :
    E2step E a1 a2 N u = cm2 E a1 a2 N u := rfl

theorem C02_step_E3 {V : Type} [CommRing V] (E Eh ah a1 b1 b2 b3 : V) (N : V → V) (u : V) :
    E3step E Eh ah a1 b1 b2 b3 N u = cm3 E Eh ah a1 b1 b2 b3 N u := by
  simp only [E3step, cm3, lit_eq]

theorem C02_step_E4 {V : Type} [CommRing V] (E Eh ah b1 b2 b3 : V) (N : V → V) (u : V) :
    E4step E Eh ah ah ah b1 b2 b3 N u = cm4 E Eh ah b1 b2 b3 N u := by
  simp only [E4step, cm4, lit_eq]
  ring

/-! ### consequences for exact coefficients `dt·φ(z)` (per mode, `z = dt·λ ≠ 0`) -/

/-- zero nonlinearity: every order reduces to the linear propagator (order 0) -/
theorem C02_zero_nonlinearity (E Eh a1 a2 a3 a4 a5 a6 u : ℂ) :
    E1step E a1 (fun _ => 0) u = E0step E u ∧ E2step E a1 a2 (fun _ => 0) u = E0step E u ∧
    E3step E Eh a1 a2 a3 a4 a5 (fun _ => 0) u = E0step E u ∧
    E4step E Eh a1 a2 a3 a4 a5 a6 (fun _ => 0) u = E0step E u := by
  simp [E0step, E1step, E2step, E3step, E4step]

/-- constant nonlinearity `N ≡ c`: ETDRK1–4 with the exact coefficients return the exact solution
    `e^z u + dt φ₁(z) c` of `u' = λu + c` (the weights telescope to `φ₁`) -/
theorem C02_constant_nonlinearity_exact (dt z c u : ℂ) (hz : z ≠ 0) :
    let E := Complex.exp z
    let Eh := Complex.exp (z / 2)
    let ah := dt * (phi1 (z / 2) / 2)
    let exact := E * u + dt * phi1 z * c
    cm1 E (dt * phi1 z) (fun _ => c) u = exact ∧
    cm2 E (dt * phi1 z) (dt * phi2 z) (fun _ => c) u = exact ∧
    cm3 E Eh ah (dt * phi1 z) (dt * (phi1 z - 3 * phi2 z + 4 * phi3 z)) (dt * (4 * phi2 z - 8 * phi3 z))
        (dt * (4 * phi3 z - phi2 z)) (fun _ => c) u = exact ∧
    cm4 E Eh ah (dt * (phi1 z - 3 * phi2 z + 4 * phi3 z)) (dt * (phi2 z - 2 * phi3 z))
        (dt * (4 * phi3 z - phi2 z)) (fun _ => c) u = exact := by
  intro E Eh ah exact
  simp only [cm1, cm2, cm3, cm4, phi1, phi2, phi3, hasExp_complex, lit_eq, E, exact]
  push_cast
  refine ⟨?_, ?_, ?_, ?_⟩
  · first | trivial | ring
  · ring
  · field_simp; ring
  · field_simp; ring

/-! ### non-vacuity: the hypotheses are met by concrete non-trivial data -/

example : ‖(0 : ℂ)‖ ≠ ‖(1 : ℂ)‖ := by simp
example : (2 : ℂ) ≠ 0 := by norm_num
example : 0 < 16 := by norm_num

/-
Continued in `Properties/C02_accuracy.lean` (the aliasing tail of the contour rule: stored coefficient = dt·φ-combination
up to an explicit, stiffness-uniform error) and `Properties/C02_order.lean` (order p: proved on the linear test family for
p = 1..4 and for Lipschitz nonlinearities for p = 1; what is still missing of `C02_global_order` is stated there).
-/

end Exponax
