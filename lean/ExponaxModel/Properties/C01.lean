import ExponaxModel.Proofs.SymbolAlgebra
import ExponaxModel.Proofs.WaveAlgebra
import ExponaxModel.Proofs.DFT
import ExponaxModel.Proofs.ExactLinearBand
import ExponaxModel.Proofs.ExactLinearSemigroup
import ExponaxModel.Proofs.StepperSymbols
import ExponaxModel.Proofs.SpectralOpsEq
import ExponaxModel.Proofs.WaveWholeNyquist
/-
C01 — linear steppers advance band-limited states by the exact PDE solution.

* `Nonlin.polySymbol c terms h` is the symbol `Σ coef·Π_d (i·s·k_d)^{α_d}` of the documented operator
  `Σ coef·∂^α` at stored mode `h` (`s = 2π/L`); the check compares `exp(dt·polySymbol)` of the documented
  operator of every linear stepper class with the implementation's `_exp_term`, mode by mode.
* `Gen.Etdrk.exp_term`, `Gen.Etdrk.E0step` are regenerated from `etdrk/_base_etdrk.py`, `_etdrk_0.py`.
* `Wave.stepMode` mirrors `stepper/_wave.py` per mode.
-/
set_option linter.unusedVariables false
namespace Exponax
open Exponax.Nonlin Exponax.Gen.Etdrk

/-! ### the propagated mode is the exact solution -/

/-- plane waves are eigenfunctions of the documented operator with eigenvalue the symbol … -/
theorem C01_symbol_is_eigenvalue (κ : List ℂ) (terms : List (ℂ × List ℕ)) (a : ℂ) (x : ℕ → ℝ) :
    applyOp κ.length terms (fun x => a * planeWave κ x) x = polyAt κ terms * (a * planeWave κ x) :=
  applyOp_planeWave κ terms a x

/-- … and `û(t)·e^{κ·x}` with `û(t) = E0step(exp_term t λ) û₀` solves `∂_t u = (Σ coef ∂^α) u` for every `t`
    (any `dt`, however large; any dimension `κ.length`) -/
theorem C01_exact_mode (κ : List ℂ) (terms : List (ℂ × List ℕ)) (u0 : ℂ) (x : ℕ → ℝ) (t : ℝ) :
    HasDerivAt (fun t : ℝ => E0step (exp_term (t : ℂ) (polyAt κ terms)) u0 * planeWave κ x)
      (applyOp κ.length terms (fun x => E0step (exp_term (t : ℂ) (polyAt κ terms)) u0 * planeWave κ x) x) t :=
  planeWave_solves κ terms u0 x t

/-- the stored-mode version: `û_h(t)` solves `û' = λ_h û`, `û_h(0) = û₀` with `λ_h` the model symbol -/
theorem C01_exact_stored_mode (c : Cfg ℂ) (terms : List (ℂ × List ℕ)) (h : ℕ) (u0 : ℂ) (t : ℝ) :
    HasDerivAt (fun t : ℝ => E0step (exp_term (t : ℂ) (polySymbol c terms h)) u0)
        (polySymbol c terms h * E0step (exp_term (t : ℂ) (polySymbol c terms h)) u0) t ∧
      E0step (exp_term ((0 : ℝ) : ℂ) (polySymbol c terms h)) u0 = u0 :=
  E0step_exact_polySymbol c terms h u0 t

/-- `n` calls with `dt` equal one call with `n·dt` -/
theorem C01_semigroup (dt lam u : ℂ) (n : ℕ) :
    (E0step (exp_term dt lam))^[n] u = E0step (exp_term (n * dt) lam) u :=
  E0step_iterate dt lam u n

/-- a call with `−dt` undoes a call with `dt` -/
theorem C01_inverse (dt lam u : ℂ) : E0step (exp_term (-dt) lam) (E0step (exp_term dt lam) u) = u :=
  E0step_neg dt lam u

/-- real operators: the symbol at `−k` is the conjugate of the symbol at `k`, so the propagated spectrum of a
    real state stays Hermitian -/
theorem C01_hermitian (c : Cfg ℂ) (s : ℝ) (hs : c.s = (s : ℂ)) (terms : List (ℂ × List ℕ)) (h h' : ℕ)
    (hk : ∀ d < c.D, wnAt c d h' = -wnAt c d h) (hc : ∀ t ∈ terms, t.1.im = 0) (dt : ℝ) :
    exp_term (dt : ℂ) (polySymbol c terms h') = (starRingEnd ℂ) (exp_term (dt : ℂ) (polySymbol c terms h)) := by
  rw [polySymbol_neg_wn_eq_conj c s hs terms h h' hk hc, exp_term_conj]

/-! ### the documented symbols in closed form (general `D`; sums over `d < c.D`, `k_d = wnAt c d h`) -/

theorem C01_symbol_advection (c : Cfg ℂ) (s : ℝ) (hs : c.s = (s : ℂ)) (h : ℕ) (v : ℕ → ℝ) :
    polySymbol c (pscale (-1) (gradInner c.D (fun d => ((v d : ℝ) : ℂ)) 1)) h
      = -(Complex.I * ((s * ∑ d ∈ Finset.range c.D, v d * (wnAt c d h : ℝ) : ℝ) : ℂ)) :=
  advection_symbol c s hs h v

theorem C01_symbol_diffusion (c : Cfg ℂ) (s : ℝ) (hs : c.s = (s : ℂ)) (h : ℕ) (A : ℕ → ℕ → ℝ) :
    polySymbol c (quadTerms c.D fun i j => ((A i j : ℝ) : ℂ)) h
      = ((-(s ^ 2 * ∑ i ∈ Finset.range c.D, ∑ j ∈ Finset.range c.D, A i j * ((wnAt c i h : ℝ) * (wnAt c j h : ℝ))) : ℝ) : ℂ) :=
  diffusion_symbol c s hs h A

theorem C01_symbol_advection_diffusion (c : Cfg ℂ) (s : ℝ) (hs : c.s = (s : ℂ)) (h : ℕ) (v : ℕ → ℝ) (A : ℕ → ℕ → ℝ) :
    polySymbol c (pscale (-1) (gradInner c.D (fun d => ((v d : ℝ) : ℂ)) 1) ++ quadTerms c.D fun i j => ((A i j : ℝ) : ℂ)) h
      = -(Complex.I * ((s * ∑ d ∈ Finset.range c.D, v d * (wnAt c d h : ℝ) : ℝ) : ℂ)) +
        ((-(s ^ 2 * ∑ i ∈ Finset.range c.D, ∑ j ∈ Finset.range c.D, A i j * ((wnAt c i h : ℝ) * (wnAt c j h : ℝ))) : ℝ) : ℂ) :=
  advection_diffusion_symbol c s hs h v A

theorem C01_symbol_dispersion (c : Cfg ℂ) (s : ℝ) (hs : c.s = (s : ℂ)) (h : ℕ) (ξ : ℕ → ℝ) :
    polySymbol c (gradInner c.D (fun d => ((ξ d : ℝ) : ℂ)) 3) h
      = -(Complex.I * ((s ^ 3 * ∑ d ∈ Finset.range c.D, ξ d * (wnAt c d h : ℝ) ^ 3 : ℝ) : ℂ)) :=
  dispersion_symbol c s hs h ξ

/-- spatially mixing form `(ξ·∇)(∇·∇)` -/
theorem C01_symbol_dispersion_mixed (c : Cfg ℂ) (s : ℝ) (hs : c.s = (s : ℂ)) (h : ℕ) (ξ : ℕ → ℝ) :
    polySymbol c (pmul (gradInner c.D (fun d => ((ξ d : ℝ) : ℂ)) 1) (lapT c.D 1 2)) h
      = -(Complex.I * (((s ^ 3 * ∑ d ∈ Finset.range c.D, ξ d * (wnAt c d h : ℝ)) * ∑ d ∈ Finset.range c.D, (wnAt c d h : ℝ) ^ 2 : ℝ) : ℂ)) :=
  dispersion_mixed_symbol c s hs h ξ

theorem C01_symbol_hyper (c : Cfg ℂ) (s : ℝ) (hs : c.s = (s : ℂ)) (h : ℕ) (μ : ℝ) :
    polySymbol c (lapT c.D (((-μ : ℝ)) : ℂ) 4) h = ((-(μ * s ^ 4 * ∑ d ∈ Finset.range c.D, (wnAt c d h : ℝ) ^ 4) : ℝ) : ℂ) :=
  hyper_symbol c s hs h μ

/-- spatially mixing form `−μ(∇·∇)²` -/
theorem C01_symbol_hyper_mixed (c : Cfg ℂ) (s : ℝ) (hs : c.s = (s : ℂ)) (h : ℕ) (μ : ℝ) :
    polySymbol c (pscale (((-μ : ℝ)) : ℂ) (pmul (lapT c.D 1 2) (lapT c.D 1 2))) h
      = ((-(μ * s ^ 4 * (∑ d ∈ Finset.range c.D, (wnAt c d h : ℝ) ^ 2) ^ 2) : ℝ) : ℂ) :=
  hyper_mixed_symbol c s hs h μ

/-- general / normalized / difficulty linear family: `Σ_j a_j Σ_d (i s k_d)^j` -/
theorem C01_symbol_general_linear (c : Cfg ℂ) (s : ℝ) (hs : c.s = (s : ℂ)) (h : ℕ) (a : List ℝ) :
    polySymbol c (generalLinear c.D (a.map fun r => ((r : ℝ) : ℂ))) h
      = ∑ j ∈ Finset.range a.length, Complex.I ^ j * ((a.getD j 0 * (s ^ j * ∑ d ∈ Finset.range c.D, (wnAt c d h : ℝ) ^ j) : ℝ) : ℂ) :=
  general_linear_symbol c s hs h a

/-! ### the wave stepper, per Fourier mode (`ω = c·|κ|`) -/

/-- non-DC modes: the exact rotation `[[cos ωdt, sin ωdt/ω], [−ω sin ωdt, cos ωdt]]` -/
theorem C01_wave (c dt kn : ℝ) (h v : ℂ) (hc : c ≠ 0) (hkn : kn ≠ 0) :
    Wave.stepMode (c : ℂ) (dt : ℂ) (kn : ℂ) false h v =
      (((Real.cos (c * kn * dt) : ℝ) : ℂ) * h + ((Real.sin (c * kn * dt) / (c * kn) : ℝ) : ℂ) * v,
        ((-(c * kn) * Real.sin (c * kn * dt) : ℝ) : ℂ) * h + ((Real.cos (c * kn * dt) : ℝ) : ℂ) * v) :=
  stepMode_nonDC_real c dt kn h v hc hkn

/-- DC mode: `h ↦ h + dt·v`, `v ↦ v` -/
theorem C01_wave_dc (c dt h v : ℂ) (hc : c ≠ 0) : Wave.stepMode c dt 0 true h v = (h + dt * v, v) :=
  stepMode_DC c dt h v hc

/-- it is the solution of `h' = v`, `v' = −ω² h` -/
theorem C01_wave_exact (c kn : ℝ) (h0 v0 : ℂ) (hc : c ≠ 0) (hkn : kn ≠ 0) (t : ℝ) :
    HasDerivAt (fun t : ℝ => (Wave.stepMode (c : ℂ) (t : ℂ) (kn : ℂ) false h0 v0).1)
        (Wave.stepMode (c : ℂ) (t : ℂ) (kn : ℂ) false h0 v0).2 t ∧
      HasDerivAt (fun t : ℝ => (Wave.stepMode (c : ℂ) (t : ℂ) (kn : ℂ) false h0 v0).2)
          (-((c * kn : ℝ) : ℂ) ^ 2 * (Wave.stepMode (c : ℂ) (t : ℂ) (kn : ℂ) false h0 v0).1) t ∧
        Wave.stepMode (c : ℂ) ((0 : ℝ) : ℂ) (kn : ℂ) false h0 v0 = (h0, v0) :=
  stepMode_nonDC_exact_real c kn h0 v0 hc hkn t

theorem C01_wave_semigroup (c dt1 dt2 kn h v : ℂ) (hc : c ≠ 0) (hkn : kn ≠ 0) :
    Wave.stepMode c dt2 kn false (Wave.stepMode c dt1 kn false h v).1 (Wave.stepMode c dt1 kn false h v).2
      = Wave.stepMode c (dt1 + dt2) kn false h v :=
  stepMode_nonDC_add c dt1 dt2 kn h v hc hkn

theorem C01_wave_inverse (c dt kn h v : ℂ) (hc : c ≠ 0) (hkn : kn ≠ 0) :
    Wave.stepMode c (-dt) kn false (Wave.stepMode c dt kn false h v).1 (Wave.stepMode c dt kn false h v).2 = (h, v) :=
  stepMode_nonDC_neg c dt kn h v hc hkn

/-! ### from modes to states: the transform pair is exact on every real grid function (all `D ≥ 1`, `N ≥ 1`) -/

theorem C01_transform_roundtrip (D N : ℕ) (hD : 0 < D) (hN : 0 < N) (x : ℕ → ℝ) :
    Transform.irfftnM D N (Transform.rfftnM D N (Transform.tab (N ^ D) (fun j => ((x j : ℝ) : ℂ))))
      = Transform.tab (N ^ D) (fun j => ((x j : ℝ) : ℂ)) :=
  DFT.irfftn_rfftn_ofReal D N hD hN x

/-! ### THE PROPERTY, assembled: the whole step on every Nyquist-free real state, all `D ≥ 1`, all `N ≥ 1`, every real `t`

`ExactLinear.linStep D N Λ t u = irfftnM (E0step (exp_term t Λ_h) (rfftnM u)_h)` is the regenerated ETDRK0 step between
the model transforms; `stateOf D N ms` is the grid sample of `Σ_m a_m cos(2π κ_m·j/N + φ_m)`. -/

/-- the step of a superposition of modes strictly below Nyquist, under the documented operator `terms` (real
    coefficients), is the superposition of the analytic solutions `a e^{t Re λ_κ} cos(κ·x + φ + t Im λ_κ)`, with `λ_κ`
    the eigenvalue of `C01_symbol_is_eigenvalue` — whole arrays, any `t ∈ ℝ` (no CFL restriction, negative `t`) -/
theorem C01_exact_state (c : Cfg ℂ) (hD : 0 < c.D) (hN : 0 < c.N) (s : ℝ) (hs : c.s = (s : ℂ))
    (terms : List (ℂ × List ℕ)) (hre : ∀ t ∈ terms, t.1.im = 0) (t : ℝ) (ms : ExactLinear.Modes)
    (hms : ∀ m ∈ ms, ExactLinear.BelowNyquist c.D c.N m.1) :
    ExactLinear.linStep c.D c.N (polySymbol c terms) (t : ℂ) (ExactLinear.stateOf c.D c.N ms) =
      ExactLinear.stateOf c.D c.N (ms.map fun m =>
        (m.1, m.2.1 * Real.exp (t * (polyAt (imagVec c.D fun d => s * (m.1.getD d 0 : ℤ)) terms).re),
          m.2.2 + t * (polyAt (imagVec c.D fun d => s * (m.1.getD d 0 : ℤ)) terms).im)) :=
  ExactLinear.linStep_polySymbol_exact c hD hN s hs terms hre t ms hms

/-- every real grid state whose transform vanishes at and above Nyquist IS such a superposition, and the step
    acts on it mode by mode -/
theorem C01_exact_every_band_limited_state (D N : ℕ) (hD : 0 < D) (hN : 0 < N) (Λ : ℕ → ℂ)
    (hΛ : ExactLinear.HermSym D N Λ) (u : Array ℂ) (hsz : u.size = N ^ D)
    (hu : ∀ j < N ^ D, (u.getD j 0).im = 0) (hb : ExactLinear.BandLimited D N u) :
    ∃ ms, (∀ m ∈ ms, ExactLinear.BelowNyquist D N m.1) ∧ u = ExactLinear.stateOf D N ms ∧
      ∀ t : ℝ, ExactLinear.linStep D N Λ (t : ℂ) u = ExactLinear.stateOf D N (ExactLinear.evolve D N Λ t ms) :=
  ExactLinear.linStep_bandLimited D N hD hN Λ hΛ u hsz hu hb

/-- "n calls with dt equal one call with n·dt" and "−dt undoes dt", for whole states -/
theorem C01_semigroup_inverse_states (D N : ℕ) (hD : 0 < D) (hN : 0 < N) (Λ : ℕ → ℂ)
    (hΛ : ExactLinear.HermSym D N Λ) (u : Array ℂ) (hsz : u.size = N ^ D)
    (hu : ∀ j < N ^ D, (u.getD j 0).im = 0) (hb : ExactLinear.BandLimited D N u) (t : ℝ) (n : ℕ) :
    (ExactLinear.linStep D N Λ (t : ℂ))^[n] u = ExactLinear.linStep D N Λ (((n : ℝ) * t : ℝ) : ℂ) u ∧
      ExactLinear.linStep D N Λ ((-t : ℝ) : ℂ) (ExactLinear.linStep D N Λ (t : ℂ) u) = u :=
  ⟨ExactLinear.linStep_iterate_bandLimited D N hD hN Λ hΛ u hsz hu hb t n,
   ExactLinear.linStep_neg_bandLimited D N hD hN Λ hΛ u hsz hu hb t⟩

/-- the Nyquist-free hypothesis of the property is necessary: with Nyquist content both laws fail (N = 2) -/
theorem C01_nyquist_needed :
    ExactLinear.linStep 1 2 ExactLinear.nyqSym (-(1 / 2)) (ExactLinear.linStep 1 2 ExactLinear.nyqSym (1 / 2)
        ExactLinear.nyqState) ≠ ExactLinear.nyqState ∧
      (ExactLinear.linStep 1 2 ExactLinear.nyqSym (1 / 2))^[2] ExactLinear.nyqState
        ≠ ExactLinear.linStep 1 2 ExactLinear.nyqSym (↑(2 : ℕ) * (1 / 2)) ExactLinear.nyqState :=
  ⟨ExactLinear.nyquist_inverse_fails.2.2.2, ExactLinear.nyquist_semigroup_fails⟩

/-! ### the symbols of the stepper CLASSES, regenerated from their `_build_linear_operator` source on every run
(`Gen.Steppers.*`), equal the documented operators (a source edit changes the subject of these theorems) -/
open Exponax.Gen.Steppers in
theorem C01_generated_symbols (c : Cfg ℂ) (h : ℕ) (v ξ : List ℂ) (A : List (List ℂ)) (μ : ℂ) (mix : Bool) (a : List ℂ)
    (hv : v.length = c.D) (hξ : ξ.length = c.D) (hA : A.length = c.D) (hr : ∀ r ∈ A, r.length = c.D) :
    Advection_linear_operator (kappa c h) v = polySymbol c (pscale (-1) (gradInner c.D (vfun v) 1)) h ∧
    Diffusion_linear_operator (kappa c h) A = polySymbol c (quadTerms c.D (mfun A)) h ∧
    AdvectionDiffusion_linear_operator (kappa c h) v A
      = polySymbol c (pscale (-1) (gradInner c.D (vfun v) 1) ++ quadTerms c.D (mfun A)) h ∧
    Dispersion_linear_operator (kappa c h) ξ mix = polySymbol c (dispersionTerms c.D (vfun ξ) mix) h ∧
    HyperDiffusion_linear_operator (kappa c h) μ mix = polySymbol c (hyperTerms c.D μ mix) h ∧
    GeneralLinearStepper_linear_operator (kappa c h) a = polySymbol c (generalLinear c.D a) h :=
  ⟨Advection_linear_operator_polySymbol c h v hv, Diffusion_linear_operator_polySymbol c h A hA hr,
   AdvectionDiffusion_linear_operator_polySymbol c h v A hv hA hr, Dispersion_linear_operator_polySymbol c h ξ mix hξ,
   HyperDiffusion_linear_operator_polySymbol c h μ mix, GeneralLinearStepper_linear_operator_polySymbol c h a⟩

/-- the regenerated wave symbols are `±i c |κ|` -/
theorem C01_generated_wave (κ : List ℂ) (c kn : ℂ) :
    Gen.Steppers.Wave_linear_operator κ c kn = [(Wave.symbols c kn).1, (Wave.symbols c kn).2] :=
  Wave_linear_operator_eq_symbols κ c kn

/-- every class with its own `_build_linear_operator` is covered, and the Normalized…/Difficulty… classes inherit -/
theorem C01_generated_coverage : Gen.Steppers.generated_classes.length = 26 ∧
    Gen.Steppers.inherited_classes.length = 11 := by
  rw [coverage_generated, coverage_inherited]; exact ⟨rfl, rfl⟩


/-! non-vacuity -/
example : ∃ c : Cfg ℂ, ∃ s : ℝ, c.s = (s : ℂ) ∧ s ≠ 0 :=
  ⟨{ D := 2, N := 8, s := ((3 : ℝ) : ℂ), fp := 0, fq := 0 }, 3, rfl, by norm_num⟩
example : (2 : ℝ) ≠ 0 ∧ (1.5 : ℝ) ≠ 0 := by norm_num

/-! ### `Wave.step_fourier`, regenerated from `stepper/_wave.py` on every run (diagonalisation, propagation, back
transform, explicit mean-mode drift), is the per-mode model `Wave.stepMode` of `C01_wave` / `C01_wave_dc`, with the
wavenumber norm the constructor stores -/
open Exponax.SpectralOpsEq in
theorem C01_generated_wave_step (D N : ℕ) (hN : 0 < N) (L dt c : ℂ) (u_hat : MC ℂ) :
    Gen.SpectralOps.Wave_step_fourier D N L dt c u_hat =
      tab2 2 (Layout.numModes D N) (fun i h =>
        if i = 0 then (Wave.stepMode c dt (waveKn D N L h) (decide (h = 0)) (at2 u_hat 0 h) (at2 u_hat 1 h)).1
        else (Wave.stepMode c dt (waveKn D N L h) (decide (h = 0)) (at2 u_hat 0 h) (at2 u_hat 1 h)).2) :=
  Wave_step_fourier_eq D N hN L dt c u_hat

open Exponax.SpectralOpsEq in
/-- the stored wavenumber norm is `(2π/L)·|k|`, zero exactly at the mean mode -/
theorem C01_generated_wave_norm (D N : ℕ) (hD : 1 ≤ D) (hN : 0 < N) (ℓ : ℝ) (hℓ : 0 < ℓ) (h : ℕ)
    (hh : h < Layout.numModes D N) :
    waveKn D N (ℓ : ℂ) h = ((2 * Real.pi / ℓ * Real.sqrt (kSq (cfg D N (ℓ : ℂ)) h) : ℝ) : ℂ) ∧
      (waveKn D N (ℓ : ℂ) h = 0 ↔ ∀ d < D, (Layout.wnFlat D N h).getD d 0 = 0) :=
  ⟨waveKn_real D N hD hN ℓ hℓ h hh, waveKn_eq_zero_iff D N hD hN ℓ hℓ h hh⟩



/-! ### the wave stepper on WHOLE STATES in physical space (library `Proofs/WaveWhole*.lean`):
`WaveWhole.waveStep D N L dt c` is the regenerated pipeline fft → `Wave_step_fourier` → ifft on a two-channel state
(`C01_wave_whole_is_generated`); on every pair of real band-limited states it returns the superposition of the analytic
d'Alembert solutions  h(t) = a cos(ωt)·cos(κx+φ) + b sinc_ω(t)·cos(κx+ψ),  v(t) = −aω sin(ωt)·cos(κx+φ) + b cos(ωt)·cos(κx+ψ),
ω = c(2π/L)|k| (mean mode: h₀ + t v₀), for all D, N ≥ 1, every real dt (negative too), L > 0, c ≠ 0; n steps = one step of
n·dt, and −dt undoes dt.  (c = 0 is excluded: the diagonalisation divides by c|k|, `C01_wave_zero_speed_degenerate`.) -/

open Exponax.WaveWhole in
theorem C01_wave_whole_is_generated :
    ∀ (D N : ℕ),
      1 ≤ D →
        ∀ (L dt c : ℂ) (u : Nonlin.MC ℂ),
          ((Gen.SpectralOps.fft [2] D N (some D) u).bind fun uh ↦
              Gen.SpectralOps.ifft [2] D N (some D) (some N) (Gen.SpectralOps.Wave_step_fourier D N L dt c uh)) =
            some (waveStep D N L dt c u) :=
  @Exponax.WaveWhole.waveStep_eq_generated

open Exponax.WaveWhole in
theorem C01_wave_whole_state :
    ∀ (D N : ℕ),
      0 < D →
        0 < N →
          ∀ (c L t : ℝ),
            c ≠ 0 →
              0 < L →
                ∀ (ms ms' : ExactLinear.Modes),
                  (∀ q ∈ ms, ExactLinear.BelowNyquist D N q.1) →
                    (∀ q ∈ ms', ExactLinear.BelowNyquist D N q.1) →
                      waveStep D N ↑L ↑t ↑c #[ExactLinear.stateOf D N ms, ExactLinear.stateOf D N ms'] =
                        #[ExactLinear.stateOf D N (waveH D c L t ms ms'), ExactLinear.stateOf D N (waveV D c L t ms ms')] :=
  @Exponax.WaveWhole.waveStep_stateOf

open Exponax.WaveWhole in
theorem C01_wave_every_band_limited_state :
    ∀ (D N : ℕ),
      0 < D →
        0 < N →
          ∀ (c L : ℝ),
            c ≠ 0 →
              0 < L →
                ∀ (u₀ u₁ : Array ℂ),
                  RealBL D N u₀ →
                    RealBL D N u₁ →
                      ∃ ms ms',
                        (∀ q ∈ ms, ExactLinear.BelowNyquist D N q.1) ∧
                          (∀ q ∈ ms', ExactLinear.BelowNyquist D N q.1) ∧
                            u₀ = ExactLinear.stateOf D N ms ∧
                              u₁ = ExactLinear.stateOf D N ms' ∧
                                ∀ (t : ℝ),
                                  waveStep D N ↑L ↑t ↑c #[u₀, u₁] =
                                    #[ExactLinear.stateOf D N (waveH D c L t ms ms'),
                                      ExactLinear.stateOf D N (waveV D c L t ms ms')] :=
  @Exponax.WaveWhole.waveStep_bandLimited

open Exponax.WaveWhole in
theorem C01_wave_amplitudes_solve_ode :
    ∀ (ω a b t : ℝ),
      HasDerivAt (fun t ↦ a * Real.cos (ω * t) + b * sincT ω t) (a * -(ω * Real.sin (ω * t)) + b * Real.cos (ω * t)) t ∧
        HasDerivAt (fun t ↦ a * -(ω * Real.sin (ω * t)) + b * Real.cos (ω * t))
            (-ω ^ 2 * (a * Real.cos (ω * t) + b * sincT ω t)) t ∧
          a * Real.cos (ω * 0) + b * sincT ω 0 = a ∧ a * -(ω * Real.sin (ω * 0)) + b * Real.cos (ω * 0) = b :=
  @Exponax.WaveWhole.waveStep_solves

open Exponax.WaveWhole in
theorem C01_wave_whole_semigroup :
    ∀ (D N : ℕ),
      0 < D →
        0 < N →
          ∀ (c L t : ℝ),
            c ≠ 0 →
              0 < L →
                ∀ (u₀ u₁ : Array ℂ),
                  RealBL D N u₀ →
                    RealBL D N u₁ →
                      ∀ (n : ℕ), (waveStep D N ↑L ↑t ↑c)^[n] #[u₀, u₁] = waveStep D N ↑L ↑(↑n * t) ↑c #[u₀, u₁] :=
  @Exponax.WaveWhole.waveStep_iterate_bandLimited

open Exponax.WaveWhole in
theorem C01_wave_whole_inverse :
    ∀ (D N : ℕ),
      0 < D →
        0 < N →
          ∀ (c L t : ℝ),
            c ≠ 0 →
              0 < L →
                ∀ (u₀ u₁ : Array ℂ),
                  RealBL D N u₀ →
                    RealBL D N u₁ → waveStep D N (↑L) (↑(-t)) (↑c) (waveStep D N ↑L ↑t ↑c #[u₀, u₁]) = #[u₀, u₁] :=
  @Exponax.WaveWhole.waveStep_neg_bandLimited

open Exponax.WaveWhole in
theorem C01_wave_zero_speed_degenerate :
    ∀ (dt kn x y : ℂ), (Wave.stepMode 0 dt kn false x y).1 = 0 :=
  @Exponax.WaveWhole.stepMode_c_zero


end Exponax
