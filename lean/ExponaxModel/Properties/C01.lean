import ExponaxModel.Proofs.SymbolAlgebra
import ExponaxModel.Proofs.WaveAlgebra
import ExponaxModel.Proofs.DFT
/-
C01 — linear steppers advance band-limited states by the exact PDE solution.

* `Nonlin.polySymbol c terms h` is the symbol `Σ coef·Π_d (i·s·k_d)^{α_d}` of the documented operator
  `Σ coef·∂^α` at stored mode `h` (`s = 2π/L`); the check compares `exp(dt·polySymbol)` of the documented
  operator of every linear stepper class with the implementation's `_exp_term`, mode by mode.
* `Gen.Etdrk.exp_term`, `Gen.Etdrk.E0step` are regenerated from `etdrk/_base_etdrk.py`, `_etdrk_0.py`.
* `Wave.stepMode` mirrors `stepper/_wave.py` per mode.
-/
set_option linter.unusedVariables false
namespace Exponax
open Exponax.Nonlin Exponax.Gen.Etdrk

/-! ### the propagated mode is the exact solution -/

/-- plane waves are eigenfunctions of the documented operator with eigenvalue the symbol … -/
theorem C01_symbol_is_eigenvalue (κ : List ℂ) (terms : List (ℂ × List ℕ)) (a : ℂ) (x : ℕ → ℝ) :
    applyOp κ.length terms (fun x => a * planeWave κ x) x = polyAt κ terms * (a * planeWave κ x) :=
  applyOp_planeWave κ terms a x

/-- … and `û(t)·e^{κ·x}` with `û(t) = E0step(exp_term t λ) û₀` solves `∂_t u = (Σ coef ∂^α) u` for every `t`
    (any `dt`, however large; any dimension `κ.length`) -/
theorem C01_exact_mode (κ : List ℂ) (terms : List (ℂ × List ℕ)) (u0 : ℂ) (x : ℕ → ℝ) (t : ℝ) :
    HasDerivAt (fun t : ℝ => E0step (exp_term (t : ℂ) (polyAt κ terms)) u0 * planeWave κ x)
      (applyOp κ.length terms (fun x => E0step (exp_term (t : ℂ) (polyAt κ terms)) u0 * planeWave κ x) x) t :=
  planeWave_solves κ terms u0 x t

/-- the stored-mode version: `û_h(t)` solves `û' = λ_h û`, `û_h(0) = û₀` with `λ_h` the model symbol -/
theorem C01_exact_stored_mode (c : Cfg ℂ) (terms : List (ℂ × List ℕ)) (h : ℕ) (u0 : ℂ) (t : ℝ) :
    HasDerivAt (fun t : ℝ => E0step (exp_term (t : ℂ) (polySymbol c terms h)) u0)
        (polySymbol c terms h * E0step (exp_term (t : ℂ) (polySymbol c terms h)) u0) t ∧
      E0step (exp_term ((0 : ℝ) : ℂ) (polySymbol c terms h)) u0 = u0 :=
  E0step_exact_polySymbol c terms h u0 t

/-- `n` calls with `dt` equal one call with `n·dt` -/
theorem C01_semigroup (dt lam u : ℂ) (n : ℕ) :
    (E0step (exp_term dt lam))^[n] u = E0step (exp_term (n * dt) lam) u :=
  E0step_iterate dt lam u n

/-- a call with `−dt` undoes a call with `dt` -/
theorem C01_inverse (dt lam u : ℂ) : E0step (exp_term (-dt) lam) (E0step (exp_term dt lam) u) = u :=
  E0step_neg dt lam u

/-- real operators: the symbol at `−k` is the conjugate of the symbol at `k`, so the propagated spectrum of a
    real state stays Hermitian -/
theorem C01_hermitian (c : Cfg ℂ) (s : ℝ) (hs : c.s = (s : ℂ)) (terms : List (ℂ × List ℕ)) (h h' : ℕ)
    (hk : ∀ d < c.D, wnAt c d h' = -wnAt c d h) (hc : ∀ t ∈ terms, t.1.im = 0) (dt : ℝ) :
    exp_term (dt : ℂ) (polySymbol c terms h') = (starRingEnd ℂ) (exp_term (dt : ℂ) (polySymbol c terms h)) := by
  rw [polySymbol_neg_wn_eq_conj c s hs terms h h' hk hc, exp_term_conj]

/-! ### the documented symbols in closed form (general `D`; sums over `d < c.D`, `k_d = wnAt c d h`) -/

theorem C01_symbol_advection (c : Cfg ℂ) (s : ℝ) (hs : c.s = (s : ℂ)) (h : ℕ) (v : ℕ → ℝ) :
    polySymbol c (pscale (-1) (gradInner c.D (fun d => ((v d : ℝ) : ℂ)) 1)) h
      = -(Complex.I * ((s * ∑ d ∈ Finset.range c.D, v d * (wnAt c d h : ℝ) : ℝ) : ℂ)) :=
  advection_symbol c s hs h v

theorem C01_symbol_diffusion (c : Cfg ℂ) (s : ℝ) (hs : c.s = (s : ℂ)) (h : ℕ) (A : ℕ → ℕ → ℝ) :
    polySymbol c (quadTerms c.D fun i j => ((A i j : ℝ) : ℂ)) h
      = ((-(s ^ 2 * ∑ i ∈ Finset.range c.D, ∑ j ∈ Finset.range c.D, A i j * ((wnAt c i h : ℝ) * (wnAt c j h : ℝ))) : ℝ) : ℂ) :=
  diffusion_symbol c s hs h A

theorem C01_symbol_advection_diffusion (c : Cfg ℂ) (s : ℝ) (hs : c.s = (s : ℂ)) (h : ℕ) (v : ℕ → ℝ) (A : ℕ → ℕ → ℝ) :
    polySymbol c (pscale (-1) (gradInner c.D (fun d => ((v d : ℝ) : ℂ)) 1) ++ quadTerms c.D fun i j => ((A i j : ℝ) : ℂ)) h
      = -(Complex.I * ((s * ∑ d ∈ Finset.range c.D, v d * (wnAt c d h : ℝ) : ℝ) : ℂ)) +
        ((-(s ^ 2 * ∑ i ∈ Finset.range c.D, ∑ j ∈ Finset.range c.D, A i j * ((wnAt c i h : ℝ) * (wnAt c j h : ℝ))) : ℝ) : ℂ) :=
  advection_diffusion_symbol c s hs h v A

theorem C01_symbol_dispersion (c : Cfg ℂ) (s : ℝ) (hs : c.s = (s : ℂ)) (h : ℕ) (ξ : ℕ → ℝ) :
    polySymbol c (gradInner c.D (fun d => ((ξ d : ℝ) : ℂ)) 3) h
      = -(Complex.I * ((s ^ 3 * ∑ d ∈ Finset.range c.D, ξ d * (wnAt c d h : ℝ) ^ 3 : ℝ) : ℂ)) :=
  dispersion_symbol c s hs h ξ

/-- spatially mixing form `(ξ·∇)(∇·∇)` -/
theorem C01_symbol_dispersion_mixed (c : Cfg ℂ) (s : ℝ) (hs : c.s = (s : ℂ)) (h : ℕ) (ξ : ℕ → ℝ) :
    polySymbol c (pmul (gradInner c.D (fun d => ((ξ d : ℝ) : ℂ)) 1) (lapT c.D 1 2)) h
      = -(Complex.I * (((s ^ 3 * ∑ d ∈ Finset.range c.D, ξ d * (wnAt c d h : ℝ)) * ∑ d ∈ Finset.range c.D, (wnAt c d h : ℝ) ^ 2 : ℝ) : ℂ)) :=
  dispersion_mixed_symbol c s hs h ξ

theorem C01_symbol_hyper (c : Cfg ℂ) (s : ℝ) (hs : c.s = (s : ℂ)) (h : ℕ) (μ : ℝ) :
    polySymbol c (lapT c.D (((-μ : ℝ)) : ℂ) 4) h = ((-(μ * s ^ 4 * ∑ d ∈ Finset.range c.D, (wnAt c d h : ℝ) ^ 4) : ℝ) : ℂ) :=
  hyper_symbol c s hs h μ

/-- spatially mixing form `−μ(∇·∇)²` -/
theorem C01_symbol_hyper_mixed (c : Cfg ℂ) (s : ℝ) (hs : c.s = (s : ℂ)) (h : ℕ) (μ : ℝ) :
    polySymbol c (pscale (((-μ : ℝ)) : ℂ) (pmul (lapT c.D 1 2) (lapT c.D 1 2))) h
      = ((-(μ * s ^ 4 * (∑ d ∈ Finset.range c.D, (wnAt c d h : ℝ) ^ 2) ^ 2) : ℝ) : ℂ) :=
  hyper_mixed_symbol c s hs h μ

/-- general / normalized / difficulty linear family: `Σ_j a_j Σ_d (i s k_d)^j` -/
theorem C01_symbol_general_linear (c : Cfg ℂ) (s : ℝ) (hs : c.s = (s : ℂ)) (h : ℕ) (a : List ℝ) :
    polySymbol c (generalLinear c.D (a.map fun r => ((r : ℝ) : ℂ))) h
      = ∑ j ∈ Finset.range a.length, Complex.I ^ j * ((a.getD j 0 * (s ^ j * ∑ d ∈ Finset.range c.D, (wnAt c d h : ℝ) ^ j) : ℝ) : ℂ) :=
  general_linear_symbol c s hs h a

/-! ### the wave stepper, per Fourier mode (`ω = c·|κ|`) -/

/-- non-DC modes: the exact rotation `[[cos ωdt, sin ωdt/ω], [−ω sin ωdt, cos ωdt]]` -/
theorem C01_wave (c dt kn : ℝ) (h v : ℂ) (hc : c ≠ 0) (hkn : kn ≠ 0) :
    Wave.stepMode (c : ℂ) (dt : ℂ) (kn : ℂ) false h v =
      (((Real.cos (c * kn * dt) : ℝ) : ℂ) * h + ((Real.sin (c * kn * dt) / (c * kn) : ℝ) : ℂ) * v,
        ((-(c * kn) * Real.sin (c * kn * dt) : ℝ) : ℂ) * h + ((Real.cos (c * kn * dt) : ℝ) : ℂ) * v) :=
  stepMode_nonDC_real c dt kn h v hc hkn

/-- DC mode: `h ↦ h + dt·v`, `v ↦ v` -/
theorem C01_wave_dc (c dt h v : ℂ) (hc : c ≠ 0) : Wave.stepMode c dt 0 true h v = (h + dt * v, v) :=
  stepMode_DC c dt h v hc

/-- it is the solution of `h' = v`, `v' = −ω² h` -/
theorem C01_wave_exact (c kn : ℝ) (h0 v0 : ℂ) (hc : c ≠ 0) (hkn : kn ≠ 0) (t : ℝ) :
    HasDerivAt (fun t : ℝ => (Wave.stepMode (c : ℂ) (t : ℂ) (kn : ℂ) false h0 v0).1)
        (Wave.stepMode (c : ℂ) (t : ℂ) (kn : ℂ) false h0 v0).2 t ∧
      HasDerivAt (fun t : ℝ => (Wave.stepMode (c : ℂ) (t : ℂ) (kn : ℂ) false h0 v0).2)
          (-((c * kn : ℝ) : ℂ) ^ 2 * (Wave.stepMode (c : ℂ) (t : ℂ) (kn : ℂ) false h0 v0).1) t ∧
        Wave.stepMode (c : ℂ) ((0 : ℝ) : ℂ) (kn : ℂ) false h0 v0 = (h0, v0) :=
  stepMode_nonDC_exact_real c kn h0 v0 hc hkn t

theorem C01_wave_semigroup (c dt1 dt2 kn h v : ℂ) (hc : c ≠ 0) (hkn : kn ≠ 0) :
    Wave.stepMode c dt2 kn false (Wave.stepMode c dt1 kn false h v).1 (Wave.stepMode c dt1 kn false h v).2
      = Wave.stepMode c (dt1 + dt2) kn false h v :=
  stepMode_nonDC_add c dt1 dt2 kn h v hc hkn

theorem C01_wave_inverse (c dt kn h v : ℂ) (hc : c ≠ 0) (hkn : kn ≠ 0) :
    Wave.stepMode c (-dt) kn false (Wave.stepMode c dt kn false h v).1 (Wave.stepMode c dt kn false h v).2 = (h, v) :=
  stepMode_nonDC_neg c dt kn h v hc hkn

/-! ### from modes to states: the transform pair is exact on every real grid function (all `D ≥ 1`, `N ≥ 1`) -/

theorem C01_transform_roundtrip (D N : ℕ) (hD : 0 < D) (hN : 0 < N) (x : ℕ → ℝ) :
    Transform.irfftnM D N (Transform.rfftnM D N (Transform.tab (N ^ D) (fun j => ((x j : ℝ) : ℂ))))
      = Transform.tab (N ^ D) (fun j => ((x j : ℝ) : ℂ)) :=
  DFT.irfftn_rfftn_ofReal D N hD hN x

/-
`C01_exact_state` (full statement: for every real Nyquist-free trigonometric polynomial u₀,
 irfftn(exp(dt·λ)·rfftn(sample u₀)) = sample(solution(dt, u₀)) in D dimensions) is assembled on paper from
 C01_exact_mode + C01_hermitian + C04_single_mode_1d/C04_roundtrip; the D-dimensional single-mode read-off is
 proved in Lean for D = 1 only (`C04_single_mode_1d`), so the assembled statement is not claimed as a Lean theorem.
-/

/-! non-vacuity -/
example : ∃ c : Cfg ℂ, ∃ s : ℝ, c.s = (s : ℂ) ∧ s ≠ 0 :=
  ⟨{ D := 2, N := 8, s := ((3 : ℝ) : ℂ), fp := 0, fq := 0 }, 3, rfl, by norm_num⟩
example : (2 : ℝ) ≠ 0 ∧ (1.5 : ℝ) ≠ 0 := by norm_num

end Exponax
