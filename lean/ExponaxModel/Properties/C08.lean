import ExponaxModel.Proofs.DFT
import ExponaxModel.Proofs.SymbolAlgebra
import ExponaxModel.Proofs.Symmetry
/-
C08 — steppers commute with the symmetries of the periodic box.
Translation (1-D, one channel, every `N ≥ 1`, every state): forward and inverse shift theorem, equivariance of every
nonlinear term of the model, of each regenerated ETDRK stage formula, of `n` steps and of rollouts — closing with the
physical-space statement for ETDRK4 + convection.  Axis permutation and embedding: at the level of the symbol for
every D (list and `Equiv.Perm (Fin D)` forms) and of the stage formulas for arbitrary relabellings.
Not proved: n-D roll of the transform (observed by the correspondence + oracle for D = 2, 3).
-/
set_option linter.unusedVariables false
namespace Exponax
open Exponax.Transform Exponax.DFT Exponax.Symmetry Exponax.Gen.Etdrk Exponax.Nonlin Exponax.Loops

/-- SHIFT THEOREM, forward -/
theorem C08_shift_forward (N : ℕ) (hN : 0 < N) (u : Array ℂ) (s : ℤ) (h : ℕ) (hh : h ≤ N / 2) :
    (rfftnM 1 N (roll N u s)).getD h 0 = twiddle N ((h : ℤ) * s) * (rfftnM 1 N u).getD h 0 :=
  rfft_roll_1d N hN u s h hh

theorem C08_shift_forward_array (N : ℕ) (hN : 0 < N) (u : Array ℂ) (s : ℤ) :
    rfftnM 1 N (roll N u s) = shiftSpec N s (rfftnM 1 N u) := rfft_roll_array N hN u s

/-- SHIFT THEOREM, inverse: for ANY stored half spectrum (no Hermitian side condition) -/
theorem C08_shift_inverse (N : ℕ) (c : Array ℂ) (s : ℤ) :
    irfftnM 1 N (shiftSpec N s c) = roll N (irfftnM 1 N c) s := irfft_shiftSpec N c s

/-- the phase is unimodular, `N`-periodic in the shift, and trivial on the mean mode -/
theorem C08_phase_facts (N : ℕ) (s t k : ℤ) (h : ℕ) :
    ‖shiftPhase N s h‖ = 1 ∧ shiftPhase N (s + t) h = shiftPhase N s h * shiftPhase N t h ∧
      shiftPhase N (s + N * k) h = shiftPhase N s h ∧ shiftPhase N s 0 = 1 :=
  ⟨norm_shiftPhase N s h, shiftPhase_add N s t h, shiftPhase_periodic N s k h, shiftPhase_zero_mode N s⟩

/-- per-mode (diagonal) operators commute with the phase -/
theorem C08_diagonal_commutes (E p u : ℂ) : E * (p * u) = p * (E * u) := by ring

/-- every nonlinear term of the model is translation equivariant (1-D, one channel, arbitrary state, arbitrary
    dealiasing mask and scales) -/
theorem C08_nonlinear_terms_equivariant (c : Cfg ℂ) (hD : c.D = 1) (hN : 0 < c.N) (s : ℤ) (uh : Array ℂ)
    (h : ℕ) (hh : h ≤ c.N / 2) (scale s0 s1 s2 : ℂ) (coeffs : List ℂ) (zf : Bool) :
    (at2 (convection c 1 scale true true #[shiftSpec c.N s uh]) 0 h
        = shiftPhase c.N s h * at2 (convection c 1 scale true true #[uh]) 0 h) ∧
    (at2 (convection c 1 scale true false #[shiftSpec c.N s uh]) 0 h
        = shiftPhase c.N s h * at2 (convection c 1 scale true false #[uh]) 0 h) ∧
    (at2 (polynomial c 1 coeffs #[shiftSpec c.N s uh]) 0 h
        = shiftPhase c.N s h * at2 (polynomial c 1 coeffs #[uh]) 0 h) ∧
    (at2 (gradientNorm c 1 scale zf #[shiftSpec c.N s uh]) 0 h
        = shiftPhase c.N s h * at2 (gradientNorm c 1 scale zf #[uh]) 0 h) ∧
    (at2 (general c 1 s0 s1 s2 zf #[shiftSpec c.N s uh]) 0 h
        = shiftPhase c.N s h * at2 (general c 1 s0 s1 s2 zf #[uh]) 0 h) ∧
    (at2 (cahnHilliard c scale #[shiftSpec c.N s uh]) 0 h
        = shiftPhase c.N s h * at2 (cahnHilliard c scale #[uh]) 0 h) :=
  ⟨convection_equivariant c hD hN scale s uh h hh, convection_nc_equivariant c hD hN scale s uh h hh,
   polynomial_equivariant c hD hN coeffs s uh h hh, gradientNorm_equivariant c hD hN scale zf s uh h hh,
   general_equivariant c hD hN s0 s1 s2 zf s uh h hh, cahnHilliard_equivariant c hD hN scale s uh h hh⟩

/-- every regenerated ETDRK stage formula commutes with a phase that the nonlinear term commutes with — arbitrary
    coefficients -/
theorem C08_stage_formulas_equivariant {V : Type} [CommRing V] (P : V) (N : V → V) (hN : ∀ v, N (P * v) = P * N v)
    (E Eh c1 c2 c3 c4 c5 c6 u : V) :
    E0step E (P * u) = P * E0step E u ∧ E1step E c1 N (P * u) = P * E1step E c1 N u ∧
    E2step E c1 c2 N (P * u) = P * E2step E c1 c2 N u ∧
    E3step E Eh c1 c2 c3 c4 c5 N (P * u) = P * E3step E Eh c1 c2 c3 c4 c5 N u ∧
    E4step E Eh c1 c2 c3 c4 c5 c6 N (P * u) = P * E4step E Eh c1 c2 c3 c4 c5 c6 N u :=
  ⟨E0step_phase P E u, E1step_phase P N hN E c1 u, E2step_phase P N hN E c1 c2 u,
   E3step_phase P N hN E Eh c1 c2 c3 c4 c5 u, E4step_phase P N hN E Eh c1 c2 c3 c4 c5 c6 u⟩

/-- lifted to `repeat` and `rollout` of any equivariant step -/
theorem C08_rollout_equivariant {S : Type} (φ step : S → S) (h : ∀ u, step (φ u) = φ (step u)) (n : ℕ)
    (incl : Bool) (u : S) :
    rollout step n incl (φ u) = (rollout step n incl u).map φ ∧ repeatN step n (φ u) = φ (repeatN step n u) :=
  ⟨rollout_equivariant φ step h n incl u, repeatN_equivariant φ step h n u⟩

/-- CAPSTONE: `n` ETDRK4 steps of a convection stepper (arbitrary coefficient arrays, arbitrary real or complex
    physical state) commute with the roll of the physical state -/
theorem C08_etdrk4_convection_translation (c : Cfg ℂ) (hD : c.D = 1) (hN : 0 < c.N) (scale : ℂ) (s : ℤ)
    (E Eh c1 c2 c3 c4 c5 c6 : ℕ → ℂ) (n : ℕ) (u : Array ℂ) :
    irfftnM 1 c.N (tab (c.N / 2 + 1)
        ((E4step E Eh c1 c2 c3 c4 c5 c6 (liftTerm c.N (convection c 1 scale true true)))^[n]
          fun h => (rfftnM 1 c.N (roll c.N u s)).getD h 0)) =
      roll c.N (irfftnM 1 c.N (tab (c.N / 2 + 1)
        ((E4step E Eh c1 c2 c3 c4 c5 c6 (liftTerm c.N (convection c 1 scale true true)))^[n]
          fun h => (rfftnM 1 c.N u).getD h 0))) s :=
  E4_convection_physical_translation c hD hN scale s E Eh c1 c2 c3 c4 c5 c6 n u

/-- AXIS PERMUTATION: the isotropic symbols (every `General*` linear operator, every Laplacian power) take the same
    value on two modes whose wavenumber tuples are permutations of each other — any D -/
theorem C08_symbol_axis_permutation (c : Cfg ℂ) (a : List ℂ) (order h h' : ℕ)
    (hp : (Layout.wnFlat c.D c.N h).Perm (Layout.wnFlat c.D c.N h')) :
    polySymbol c (generalLinear c.D a) h = polySymbol c (generalLinear c.D a) h' ∧
      laplace c order h = laplace c order h' :=
  ⟨polySymbol_generalLinear_perm c a h h' hp, laplace_perm c order h h' hp⟩

/-- and stage formulas commute with any relabelling of modes that fixes the coefficient arrays -/
theorem C08_stage_relabel {ι : Type} (σ : ι → ι) (N : (ι → ℂ) → ι → ℂ) (hN : ∀ v, N v ∘ σ = N (v ∘ σ))
    (E Eh c1 c2 c3 c4 c5 c6 u : ι → ℂ) (hE : E ∘ σ = E) (hEh : Eh ∘ σ = Eh) (h1 : c1 ∘ σ = c1) (h2 : c2 ∘ σ = c2)
    (h3 : c3 ∘ σ = c3) (h4 : c4 ∘ σ = c4) (h5 : c5 ∘ σ = c5) (h6 : c6 ∘ σ = c6) :
    E4step E Eh c1 c2 c3 c4 c5 c6 N (u ∘ σ) = E4step E Eh c1 c2 c3 c4 c5 c6 N u ∘ σ :=
  E4step_relabel σ N hN E Eh c1 c2 c3 c4 c5 c6 u hE hEh h1 h2 h3 h4 h5 h6

/-- EMBEDDING: on modes that vary along one axis only, the D-dimensional symbol is the 1-D symbol (with the
    order-0 coefficient counted D times, as the code sums it over axes) -/
theorem C08_symbol_embedding (c c₁ : Cfg ℂ) (hD₁ : c₁.D = 1) (hs : c₁.s = c.s) (d₀ h h₁ : ℕ) (hd₀ : d₀ < c.D)
    (hz : ∀ e < c.D, e ≠ d₀ → wnAt c e h = 0) (hk : wnAt c₁ 0 h₁ = wnAt c d₀ h) (a : List ℂ) :
    polySymbol c (generalLinear c.D a) h = polySymbol c₁ (generalLinear c₁.D (embedCoefs c.D a)) h₁ :=
  polySymbol_generalLinear_embed c c₁ hD₁ hs d₀ h h₁ hd₀ hz hk a

example : (0 : ℕ) < 8 := by decide

end Exponax
