import ExponaxModel.Proofs.DFT
import ExponaxModel.Proofs.SymbolAlgebra
import ExponaxModel.Proofs.Symmetry
import ExponaxModel.Proofs.SymmetryND
import ExponaxModel.Proofs.SymmetryND2
import ExponaxModel.Proofs.EquivarianceNDSteps
import ExponaxModel.Proofs.AxisPermEmbedAxis
import ExponaxModel.Proofs.AxisPermTermsMC
import ExponaxModel.Proofs.SmallGaps3AxisPermVortSteps
import ExponaxModel.Proofs.SmallGaps3AxisPerm
/-
C08 — steppers commute with the symmetries of the periodic box.
Translation (1-D, one channel, every `N ≥ 1`, every state): forward and inverse shift theorem, equivariance of every
nonlinear term of the model, of each regenerated ETDRK stage formula, of `n` steps and of rollouts — closing with the
physical-space statement for ETDRK4 + convection.  Axis permutation and embedding: at the level of the symbol for
every D (list and `Equiv.Perm (Fin D)` forms) and of the stage formulas for arbitrary relabellings.
n-D (`Proofs/SymmetryND*.lean`): forward and inverse shift theorem for every D and every per-axis shift vector, hence
every linear stepper `irfftn(E ⊙ rfftn u)` commutes with n-D rolls for n steps and whole rollouts; reflection
`x → −x` conjugates the spectrum of a real state, so even-order (real-symbol) steppers commute with it and a stepper with
symbol `E` is mapped to the one with `conj E` (velocity `c → −c`); 2-D transposition with permuted anisotropic symbols.
The property's own caveat ("odd-order linear terms need a Nyquist-free state on even grids for the axis permutation") is
a THEOREM here: `C08_transpose_counterexample` (advection, N = 4) and the corrected statement with the Nyquist-sign
hypothesis.  Nonlinear terms in every dimension: `C08_nonlinear_terms_equivariant_nd`, `C08_translation_nd`.  Not proved:
axis permutations of the nonlinear terms and 3-D axis permutations at the transform level (correspondence + oracle).
-/
set_option linter.unusedVariables false
namespace Exponax
open Exponax.Transform Exponax.DFT Exponax.Symmetry Exponax.Gen.Etdrk Exponax.Nonlin Exponax.Loops

/-- SHIFT THEOREM, forward -/
theorem C08_shift_forward (N : ℕ) (hN : 0 < N) (u : Array ℂ) (s : ℤ) (h : ℕ) (hh : h ≤ N / 2) :
    (rfftnM 1 N (roll N u s)).getD h 0 = twiddle N ((h : ℤ) * s) * (rfftnM 1 N u).getD h 0 :=
  rfft_roll_1d N hN u s h hh

theorem C08_shift_forward_array (N : ℕ) (hN : 0 < N) (u : Array ℂ) (s : ℤ) :
    rfftnM 1 N (roll N u s) = shiftSpec N s (rfftnM 1 N u) := rfft_roll_array N hN u s

/-- SHIFT THEOREM, inverse: for ANY stored half spectrum (no Hermitian side condition) -/
theorem C08_shift_inverse (N : ℕ) (c : Array ℂ) (s : ℤ) :
    irfftnM 1 N (shiftSpec N s c) = roll N (irfftnM 1 N c) s := irfft_shiftSpec N c s

/-- the phase is unimodular, `N`-periodic in the shift, and trivial on the mean mode -/
theorem C08_phase_facts (N : ℕ) (s t k : ℤ) (h : ℕ) :
    ‖shiftPhase N s h‖ = 1 ∧ shiftPhase N (s + t) h = shiftPhase N s h * shiftPhase N t h ∧
      shiftPhase N (s + N * k) h = shiftPhase N s h ∧ shiftPhase N s 0 = 1 :=
  ⟨norm_shiftPhase N s h, shiftPhase_add N s t h, shiftPhase_periodic N s k h, shiftPhase_zero_mode N s⟩

/-- per-mode (diagonal) operators commute with the phase -/
theorem C08_diagonal_commutes (E p u : ℂ) : E * (p * u) = p * (E * u) := by ring

/-- every nonlinear term of the model is translation equivariant (1-D, one channel, arbitrary state, arbitrary
    dealiasing mask and scales) -/
theorem C08_nonlinear_terms_equivariant (c : Cfg ℂ) (hD : c.D = 1) (hN : 0 < c.N) (s : ℤ) (uh : Array ℂ)
    (h : ℕ) (hh : h ≤ c.N / 2) (scale s0 s1 s2 : ℂ) (coeffs : List ℂ) (zf : Bool) :
    (at2 (convection c 1 scale true true #[shiftSpec c.N s uh]) 0 h
        = shiftPhase c.N s h * at2 (convection c 1 scale true true #[uh]) 0 h) ∧
    (at2 (convection c 1 scale true false #[shiftSpec c.N s uh]) 0 h
        = shiftPhase c.N s h * at2 (convection c 1 scale true false #[uh]) 0 h) ∧
    (at2 (polynomial c 1 coeffs #[shiftSpec c.N s uh]) 0 h
        = shiftPhase c.N s h * at2 (polynomial c 1 coeffs #[uh]) 0 h) ∧
    (at2 (gradientNorm c 1 scale zf #[shiftSpec c.N s uh]) 0 h
        = shiftPhase c.N s h * at2 (gradientNorm c 1 scale zf #[uh]) 0 h) ∧
    (at2 (general c 1 s0 s1 s2 zf #[shiftSpec c.N s uh]) 0 h
        = shiftPhase c.N s h * at2 (general c 1 s0 s1 s2 zf #[uh]) 0 h) ∧
    (at2 (cahnHilliard c scale #[shiftSpec c.N s uh]) 0 h
        = shiftPhase c.N s h * at2 (cahnHilliard c scale #[uh]) 0 h) :=
  ⟨convection_equivariant c hD hN scale s uh h hh, convection_nc_equivariant c hD hN scale s uh h hh,
   polynomial_equivariant c hD hN coeffs s uh h hh, gradientNorm_equivariant c hD hN scale zf s uh h hh,
   general_equivariant c hD hN s0 s1 s2 zf s uh h hh, cahnHilliard_equivariant c hD hN scale s uh h hh⟩

/-- every regenerated ETDRK stage formula commutes with a phase that the nonlinear term commutes with — arbitrary
    coefficients -/
theorem C08_stage_formulas_equivariant {V : Type} [CommRing V] (P : V) (N : V → V) (hN : ∀ v, N (P * v) = P * N v)
    (E Eh c1 c2 c3 c4 c5 c6 u : V) :
    E0step E (P * u) = P * E0step E u ∧ E1step E c1 N (P * u) = P * E1step E c1 N u ∧
    E2step E c1 c2 N (P * u) = P * E2step E c1 c2 N u ∧
    E3step E Eh c1 c2 c3 c4 c5 N (P * u) = P * E3step E Eh c1 c2 c3 c4 c5 N u ∧
    E4step E Eh c1 c2 c3 c4 c5 c6 N (P * u) = P * E4step E Eh c1 c2 c3 c4 c5 c6 N u :=
  ⟨E0step_phase P E u, E1step_phase P N hN E c1 u, E2step_phase P N hN E c1 c2 u,
   E3step_phase P N hN E Eh c1 c2 c3 c4 c5 u, E4step_phase P N hN E Eh c1 c2 c3 c4 c5 c6 u⟩

/-- lifted to `repeat` and `rollout` of any equivariant step -/
theorem C08_rollout_equivariant {S : Type} (φ step : S → S) (h : ∀ u, step (φ u) = φ (step u)) (n : ℕ)
    (incl : Bool) (u : S) :
    rollout step n incl (φ u) = (rollout step n incl u).map φ ∧ repeatN step n (φ u) = φ (repeatN step n u) :=
  ⟨rollout_equivariant φ step h n incl u, repeatN_equivariant φ step h n u⟩

/-- CAPSTONE: `n` ETDRK4 steps of a convection stepper (arbitrary coefficient arrays, arbitrary real or complex
    physical state) commute with the roll of the physical state -/
theorem C08_etdrk4_convection_translation (c : Cfg ℂ) (hD : c.D = 1) (hN : 0 < c.N) (scale : ℂ) (s : ℤ)
    (E Eh c1 c2 c3 c4 c5 c6 : ℕ → ℂ) (n : ℕ) (u : Array ℂ) :
    irfftnM 1 c.N (tab (c.N / 2 + 1)
        ((E4step E Eh c1 c2 c3 c4 c5 c6 (liftTerm c.N (convection c 1 scale true true)))^[n]
          fun h => (rfftnM 1 c.N (roll c.N u s)).getD h 0)) =
      roll c.N (irfftnM 1 c.N (tab (c.N / 2 + 1)
        ((E4step E Eh c1 c2 c3 c4 c5 c6 (liftTerm c.N (convection c 1 scale true true)))^[n]
          fun h => (rfftnM 1 c.N u).getD h 0))) s :=
  E4_convection_physical_translation c hD hN scale s E Eh c1 c2 c3 c4 c5 c6 n u

/-- AXIS PERMUTATION: the isotropic symbols (every `General*` linear operator, every Laplacian power) take the same
    value on two modes whose wavenumber tuples are permutations of each other — any D -/
theorem C08_symbol_axis_permutation (c : Cfg ℂ) (a : List ℂ) (order h h' : ℕ)
    (hp : (Layout.wnFlat c.D c.N h).Perm (Layout.wnFlat c.D c.N h')) :
    polySymbol c (generalLinear c.D a) h = polySymbol c (generalLinear c.D a) h' ∧
      laplace c order h = laplace c order h' :=
  ⟨polySymbol_generalLinear_perm c a h h' hp, laplace_perm c order h h' hp⟩

/-- and stage formulas commute with any relabelling of modes that fixes the coefficient arrays -/
theorem C08_stage_relabel {ι : Type} (σ : ι → ι) (N : (ι → ℂ) → ι → ℂ) (hN : ∀ v, N v ∘ σ = N (v ∘ σ))
    (E Eh c1 c2 c3 c4 c5 c6 u : ι → ℂ) (hE : E ∘ σ = E) (hEh : Eh ∘ σ = Eh) (h1 : c1 ∘ σ = c1) (h2 : c2 ∘ σ = c2)
    (h3 : c3 ∘ σ = c3) (h4 : c4 ∘ σ = c4) (h5 : c5 ∘ σ = c5) (h6 : c6 ∘ σ = c6) :
    E4step E Eh c1 c2 c3 c4 c5 c6 N (u ∘ σ) = E4step E Eh c1 c2 c3 c4 c5 c6 N u ∘ σ :=
  E4step_relabel σ N hN E Eh c1 c2 c3 c4 c5 c6 u hE hEh h1 h2 h3 h4 h5 h6

/-- EMBEDDING: on modes that vary along one axis only, the D-dimensional symbol is the 1-D symbol (with the
    order-0 coefficient counted D times, as the code sums it over axes) -/
theorem C08_symbol_embedding (c c₁ : Cfg ℂ) (hD₁ : c₁.D = 1) (hs : c₁.s = c.s) (d₀ h h₁ : ℕ) (hd₀ : d₀ < c.D)
    (hz : ∀ e < c.D, e ≠ d₀ → wnAt c e h = 0) (hk : wnAt c₁ 0 h₁ = wnAt c d₀ h) (a : List ℂ) :
    polySymbol c (generalLinear c.D a) h = polySymbol c₁ (generalLinear c₁.D (embedCoefs c.D a)) h₁ :=
  polySymbol_generalLinear_embed c c₁ hD₁ hs d₀ h h₁ hd₀ hz hk a

/-! ### n-D translations, reflections, transposition (linear steppers, every D) -/
open Exponax.SymmetryND in
/-- n-D SHIFT THEOREM, forward and inverse, any D, any shift vector, any complex field / any stored spectrum -/
theorem C08_shift_nd (D N : ℕ) (hN : 0 < N) (u c : Array ℂ) (s : List ℤ) :
    rfftnM D N (rollND D N u s) = shiftSpecND D N s (rfftnM D N u) ∧
      irfftnM D N (shiftSpecND D N s c) = rollND D N (irfftnM D N c) s :=
  ⟨rfftn_rollND_array D N hN u s, irfftn_shiftSpecND D N hN c s⟩

open Exponax.SymmetryND in
/-- every linear stepper commutes with every n-D roll: one step, n steps, whole rollouts; arbitrary per-mode factors
    (the regenerated `E0step`), arbitrary state (white noise included) -/
theorem C08_linear_translation_nd (D N : ℕ) (hN : 0 < N) (E : ℕ → ℂ) (n : ℕ) (incl : Bool) (u : Array ℂ)
    (s : List ℤ) :
    (SymmetryND.linStep D N E)^[n] (rollND D N u s) = rollND D N ((SymmetryND.linStep D N E)^[n] u) s ∧
    Loops.rollout (SymmetryND.linStep D N E) n incl (rollND D N u s)
      = (Loops.rollout (SymmetryND.linStep D N E) n incl u).map (fun v => rollND D N v s) ∧
    irfftnM D N (tab (Layout.numModes D N) ((E0step E)^[n] (specFun D N (rollND D N u s))))
      = rollND D N (irfftnM D N (tab (Layout.numModes D N) ((E0step E)^[n] (specFun D N u)))) s :=
  ⟨linStep_iterate_rollND D N hN E n u s, linStep_rollout_rollND D N hN E n incl u s, E0step_rollND D N hN E n u s⟩

open Exponax.SymmetryND in
/-- REFLECTION x → −x: conjugates the spectrum of a real state; a stepper with factors `E` becomes the stepper with
    `conj E` (advection velocity c → −c; even-order operators commute) -/
theorem C08_reflection (D N : ℕ) (hN : 0 < N) (E E' : ℕ → ℂ) (hE : ∀ h < Layout.numModes D N, E' h = (starRingEnd ℂ) (E h))
    (n : ℕ) (u : Array ℂ) (hu : ∀ j < N ^ D, (u.getD j 0).im = 0) :
    rfftnM D N (reflect D N u) = conjSpec D N (rfftnM D N u) ∧
      (SymmetryND.linStep D N E')^[n] (reflect D N u) = reflect D N ((SymmetryND.linStep D N E)^[n] u) :=
  ⟨rfftn_reflect_array D N hN u hu, linStep_iterate_reflect D N hN E E' hE n u hu⟩

open Exponax.SymmetryND in
/-- TRANSPOSITION (D = 2) with permuted anisotropic symbol `σ(k₀,k₁) ↦ σ(k₁,k₀)`: holds for real states whenever, on
    even grids, the symbol does not see the sign of a Nyquist wavenumber (every even-order operator; every operator on
    odd grids) … -/
theorem C08_transposition_2d (N : ℕ) (hN : 0 < N) (σ : ℤ → ℤ → ℂ)
    (hσ : ∀ k0 k1, σ (-k0) (-k1) = (starRingEnd ℂ) (σ k0 k1))
    (h0 : N % 2 = 0 → ∀ k, σ (-((N / 2 : ℕ) : ℤ)) k = σ ((N / 2 : ℕ) : ℤ) k)
    (h1 : N % 2 = 0 → ∀ k, σ k (-((N / 2 : ℕ) : ℤ)) = σ k ((N / 2 : ℕ) : ℤ))
    (u : Array ℂ) (hu : ∀ j < N ^ 2, (u.getD j 0).im = 0) :
    SymmetryND.linStep 2 N (symMul N fun k0 k1 => σ k1 k0) (transpose2 N u)
      = transpose2 N (SymmetryND.linStep 2 N (symMul N σ) u) :=
  linStep_transpose2_symbol N hN σ hσ h0 h1 u hu

open Exponax.SymmetryND in
/-- … and FAILS without that hypothesis: advection `σ = i(k₀+k₁)` on `N = 4` and a real state with Nyquist content —
    exactly the exception the property states ("odd-order linear terms need a Nyquist-free state on even grids") -/
theorem C08_transpose_counterexample :
    ∃ (σ : ℤ → ℤ → ℂ) (u : Array ℂ), (∀ k0 k1, σ k1 k0 = σ k0 k1) ∧
      (∀ k0 k1, σ (-k0) (-k1) = (starRingEnd ℂ) (σ k0 k1)) ∧ (u.size = 4 ^ 2 ∧ ∀ j < 4 ^ 2, (u.getD j 0).im = 0) ∧
      SymmetryND.linStep 2 4 (symMul 4 σ) (transpose2 4 u) ≠ transpose2 4 (SymmetryND.linStep 2 4 (symMul 4 σ) u) :=
  transpose2_counterexample

/-! ### every NONLINEAR term, every dimension, every channel count, every shift vector, arbitrary spectra
(`Proofs/EquivarianceND*.lean`): `EquivND.shiftMC` multiplies every channel's spectrum by the n-D phases -/

/-- convection (all four option combinations), polynomial, any pointwise reaction (Gray–Scott, BZ, …), gradient norm,
    general, Cahn–Hilliard, 2-D vorticity and 3-D rotational terms without injection are translation equivariant -/
theorem C08_nonlinear_terms_equivariant_nd (c : Cfg ℂ) (hN : 0 < c.N) (C : ℕ) (scale s0 s1 s2 : ℂ)
    (single conservative zeroFix : Bool) (coeffs : List ℂ) (react : List ℂ → List ℂ) (s : List ℤ) (uh : MC ℂ)
    (ch h : ℕ) (hh : h < modes c) :
    (at2 (convection c C scale single conservative (EquivND.shiftMC c.D c.N s uh)) ch h
      = SymmetryND.shiftPhaseND c.D c.N s h * at2 (convection c C scale single conservative uh) ch h) ∧
    (at2 (polynomial c C coeffs (EquivND.shiftMC c.D c.N s uh)) ch h
      = SymmetryND.shiftPhaseND c.D c.N s h * at2 (polynomial c C coeffs uh) ch h) ∧
    (at2 (reaction c C react (EquivND.shiftMC c.D c.N s uh)) ch h
      = SymmetryND.shiftPhaseND c.D c.N s h * at2 (reaction c C react uh) ch h) ∧
    (at2 (gradientNorm c C scale zeroFix (EquivND.shiftMC c.D c.N s uh)) ch h
      = SymmetryND.shiftPhaseND c.D c.N s h * at2 (gradientNorm c C scale zeroFix uh) ch h) ∧
    (at2 (general c C s0 s1 s2 zeroFix (EquivND.shiftMC c.D c.N s uh)) ch h
      = SymmetryND.shiftPhaseND c.D c.N s h * at2 (general c C s0 s1 s2 zeroFix uh) ch h) ∧
    (at2 (cahnHilliard c scale (EquivND.shiftMC c.D c.N s uh)) ch h
      = SymmetryND.shiftPhaseND c.D c.N s h * at2 (cahnHilliard c scale uh) ch h) ∧
    (at2 (vorticity2d c scale none (EquivND.shiftMC c.D c.N s uh)) ch h
      = SymmetryND.shiftPhaseND c.D c.N s h * at2 (vorticity2d c scale none uh) ch h) ∧
    (at2 (projected3d c none (EquivND.shiftMC c.D c.N s uh)) ch h
      = SymmetryND.shiftPhaseND c.D c.N s h * at2 (projected3d c none uh) ch h) :=
  ⟨EquivND.convection_equivariant_nd c hN C scale single conservative s uh ch h hh,
   EquivND.polynomial_equivariant_nd c hN C coeffs s uh ch h hh,
   EquivND.reaction_equivariant_nd c hN C react s uh ch h hh,
   EquivND.gradientNorm_equivariant_nd c hN C scale zeroFix s uh ch h hh,
   EquivND.general_equivariant_nd c hN C s0 s1 s2 zeroFix s uh ch h hh,
   EquivND.cahnHilliard_equivariant_nd c hN scale s uh ch h hh,
   EquivND.vorticity2d_equivariant_nd c hN scale s uh ch h hh,
   EquivND.projected3d_equivariant_nd c hN s uh ch h hh⟩

/-- Kolmogorov forcing restricts the translations to the forcing's invariant direction: shifts along axis 1 by whole
    forcing periods (`N ∣ m·s₁`), arbitrary along the other axes — exactly the property's clause -/
theorem C08_forced_terms_equivariant (c : Cfg ℂ) (hN : 0 < c.N) (scale : ℂ) (m : ℕ) (gam : ℂ) (s : List ℤ)
    (hs : (c.N : ℤ) ∣ (m : ℤ) * s.getD 1 0) (uh : MC ℂ) (ch h : ℕ) (hh : h < modes c) :
    (c.D = 2 → at2 (vorticity2d c scale (some (m, gam)) (EquivND.shiftMC c.D c.N s uh)) ch h
      = SymmetryND.shiftPhaseND c.D c.N s h * at2 (vorticity2d c scale (some (m, gam)) uh) ch h) ∧
    (c.D = 3 → at2 (projected3d c (some (m, gam)) (EquivND.shiftMC c.D c.N s uh)) ch h
      = SymmetryND.shiftPhaseND c.D c.N s h * at2 (projected3d c (some (m, gam)) uh) ch h) :=
  ⟨fun hD => EquivND.vorticity2d_inj_equivariant_nd c hD hN scale m gam s hs uh ch h hh,
   fun hD => EquivND.projected3d_inj_equivariant_nd c hD hN m gam s hs uh ch h hh⟩

/-- THE PROPERTY (translations): `n` steps of ETDRK4 with ANY translation-equivariant multi-channel term, arbitrary
    coefficient arrays, commute with the n-D roll of the physical multi-channel state — every D, every N, arbitrary
    states; orders 1–3 and rollouts are `EquivND.E?_physical_translation_nd` / `E?step_rollout_translation_nd` -/
theorem C08_translation_nd (c : Cfg ℂ) (hN : 0 < c.N) (s : List ℤ) (C : ℕ) (T : MC ℂ → MC ℂ)
    (hT : EquivND.TermEquivariant c s T) (E Eh c1 c2 c3 c4 c5 c6 : ℕ → ℕ → ℂ) (n : ℕ) (u : MC ℂ) (ch : ℕ) :
    EquivND.physCh c.D c.N ((E4step E Eh c1 c2 c3 c4 c5 c6 (EquivND.liftTermND c C T))^[n]
        (EquivND.specMC c.D c.N (EquivND.rollMC c.D c.N s u))) ch =
      SymmetryND.rollND c.D c.N (EquivND.physCh c.D c.N ((E4step E Eh c1 c2 c3 c4 c5 c6 (EquivND.liftTermND c C T))^[n]
        (EquivND.specMC c.D c.N u)) ch) s :=
  EquivND.E4_physical_translation_nd c hN s C T hT E Eh c1 c2 c3 c4 c5 c6 n u ch

/-- written out on the transforms for multi-channel convection (Burgers / KdV / KS-conservative in D dimensions) -/
theorem C08_convection_translation_nd (c : Cfg ℂ) (hN : 0 < c.N) (C : ℕ) (scale : ℂ) (single conservative : Bool)
    (s : List ℤ) (E Eh c1 c2 c3 c4 c5 c6 : ℕ → ℕ → ℂ) (n : ℕ) (u : MC ℂ) (ch : ℕ) :
    irfftnM c.D c.N (tab (Layout.numModes c.D c.N)
        ((E4step E Eh c1 c2 c3 c4 c5 c6 (EquivND.liftTermND c C (convection c C scale single conservative)))^[n]
          (fun ch h => (rfftnM c.D c.N ((u.map fun v => SymmetryND.rollND c.D c.N v s).getD ch #[])).getD h 0) ch)) =
      SymmetryND.rollND c.D c.N (irfftnM c.D c.N (tab (Layout.numModes c.D c.N)
        ((E4step E Eh c1 c2 c3 c4 c5 c6 (EquivND.liftTermND c C (convection c C scale single conservative)))^[n]
          (fun ch h => (rfftnM c.D c.N (u.getD ch #[])).getD h 0) ch))) s :=
  EquivND.E4_convection_physical_translation_nd c hN C scale single conservative s E Eh c1 c2 c3 c4 c5 c6 n u ch


example : (0 : ℕ) < 8 := by decide


/-! ### axis permutations and 1-D embedding in EVERY dimension (library `Proofs/AxisPerm*.lean`): `permField D N σ u` is
(P_σ u)(j) = u(j∘σ); `fullCoef` reads the coefficient of ANY integer wavenumber vector off the half layout (stored entry or
conjugate of the partner).  The spectrum of a permuted real state is the relabelled spectrum (every state); isotropic
single-channel terms commute with P_σ and multi-channel convection with the joint axis-and-channel permutation; ETDRK steps and
rollouts of isotropic steppers commute with P_σ on real Nyquist-free states when N is odd or a dealiasing mask is active; the
D-dimensional step of a 1-D state embedded along the last axis is the embedding of the 1-D step for every state -/

open Exponax.AxisPerm Exponax.AliasND in
theorem C08_dft_of_permuted_field :
    ∀ (D N : ℕ),
      0 < N →
        ∀ (σ : Equiv.Perm (Fin D)) (u : Array ℂ) (k : Fin D → ℤ),
          AliasND.dftV D N (permField D N σ u) k = AliasND.dftV D N u (k ∘ ⇑σ) :=
  @Exponax.AxisPerm.dftV_permField

open Exponax.AxisPerm Exponax.AliasND in
theorem C08_spectrum_of_permuted_state :
    ∀ (D N : ℕ),
      0 < D →
        0 < N →
          ∀ (σ : Equiv.Perm (Fin D)) (u : Array ℂ),
            AliasND.IsRealND D N u →
              ∀ (κ : Fin D → ℤ),
                fullCoef D N (Transform.rfftnM D N (permField D N σ u)) κ = fullCoef D N (Transform.rfftnM D N u) (κ ∘ ⇑σ) :=
  @Exponax.AxisPerm.rfftn_permField_fullCoef

open Exponax.AxisPerm Exponax.AliasND in
theorem C08_spectrum_of_permuted_state_3d :
    ∀ (N : ℕ),
      0 < N →
        ∀ (σ : Equiv.Perm (Fin 3)) (u : Array ℂ),
          AliasND.IsRealND 3 N u →
            ∀ (k : Fin 3 → ℤ),
              fullCoef 3 N (Transform.rfftnM 3 N (permField 3 N σ u)) k =
                fullCoef 3 N (Transform.rfftnM 3 N u) ![k (σ 0), k (σ 1), k (σ 2)] :=
  @Exponax.AxisPerm.rfftn_permField_3d

open Exponax.AxisPerm Exponax.AliasND in
theorem C08_general_term_commutes_with_axis_permutation :
    ∀ (c : Nonlin.Cfg ℂ),
      PermCfg c →
        ∀ (σ : Equiv.Perm (Fin c.D)) (C : ℕ) (s0 s1 s2 : ℂ),
          s0.im = 0 →
            s1.im = 0 →
              s2.im = 0 →
                ∀ (zeroFix : Bool) (uh uh' : Nonlin.MC ℂ),
                  MCSpecPerm c σ id uh uh' →
                    MCSpecPerm c σ id (Nonlin.general c C s0 s1 s2 zeroFix uh) (Nonlin.general c C s0 s1 s2 zeroFix uh') :=
  @Exponax.AxisPerm.general_mcSpecPerm

open Exponax.AxisPerm Exponax.AliasND in
theorem C08_multichannel_convection_commutes_with_axis_and_channel_permutation :
    ∀ (c : Nonlin.Cfg ℂ),
      PermCfg c →
        ∀ (σ : Equiv.Perm (Fin c.D)) (scale : ℂ),
          scale.im = 0 →
            ∀ (uh uh' : Nonlin.MC ℂ),
              MCSpecPerm c σ (chanMap σ) uh uh' →
                MCSpecPerm c σ (chanMap σ) (Nonlin.convection c c.D scale false false uh)
                  (Nonlin.convection c c.D scale false false uh') :=
  @Exponax.AxisPerm.convection_multi_noncons_mcSpecPerm

open Exponax.AxisPerm Exponax.AliasND in
theorem C08_term_axis_permutation_physical :
    ∀ (c : Nonlin.Cfg ℂ),
      0 < c.D →
        0 < c.N →
          ∀ (σ : Equiv.Perm (Fin c.D)) (τ : ℕ → ℕ) (C : ℕ),
            (∀ (ch : ℕ), τ ch < C ↔ ch < C) →
              ∀ (T : Nonlin.MC ℂ → Nonlin.MC ℂ),
                TermPerm c σ τ T →
                  ∀ (u u' : Nonlin.MC ℂ),
                    (∀ (ch : ℕ), AliasND.IsRealND c.D c.N (Array.getD u ch #[])) →
                      (∀ (ch : ℕ), NyqFreeS c.D c.N (Transform.rfftnM c.D c.N (Array.getD u ch #[]))) →
                        (∀ (ch : ℕ), FieldPerm c.D c.N σ (Array.getD u ch #[]) (Array.getD u' (τ ch) #[])) →
                          ∀ (ch : ℕ),
                            Transform.irfftnM c.D c.N
                                (Array.getD (T (Nonlin.tab2 C (Nonlin.modes c) (EquivND.specMC c.D c.N u'))) (τ ch) #[]) =
                              permField c.D c.N σ
                                (Transform.irfftnM c.D c.N
                                  (Array.getD (T (Nonlin.tab2 C (Nonlin.modes c) (EquivND.specMC c.D c.N u))) ch #[])) :=
  @Exponax.AxisPerm.term_physical_axisPerm

open Exponax.AxisPerm Exponax.AliasND in
theorem C08_step_commutes_with_axis_permutation :
    ∀ (c : Nonlin.Cfg ℂ),
      PermCfg c →
        ∀ (σ : Equiv.Perm (Fin c.D)) (a : List ℂ),
          (∀ x ∈ a, x.im = 0) →
            ∀ (F Fh F1 F2 F3 F4 F5 F6 : ℂ → ℂ),
              (∀ G ∈ [F, Fh, F1, F2, F3, F4, F5, F6], ∀ (z : ℂ), G ((starRingEnd ℂ) z) = (starRingEnd ℂ) (G z)) →
                ∀ (C : ℕ) (s0 s1 s2 : ℂ),
                  s0.im = 0 →
                    s1.im = 0 →
                      s2.im = 0 →
                        ∀ (zeroFix : Bool) (n : ℕ) (u : Nonlin.MC ℂ),
                          (∀ (ch : ℕ), AliasND.IsRealND c.D c.N (Array.getD u ch #[])) →
                            (∀ (ch : ℕ), NyqFreeS c.D c.N (Transform.rfftnM c.D c.N (Array.getD u ch #[]))) →
                              ∀ (ch : ℕ),
                                Transform.irfftnM c.D c.N
                                    (Transform.tab (Layout.numModes c.D c.N)
                                      ((Gen.Etdrk.E4step (fun x h ↦ F (Nonlin.polySymbol c (generalLinear c.D a) h))
                                            (fun x h ↦ Fh (Nonlin.polySymbol c (generalLinear c.D a) h))
                                            (fun x h ↦ F1 (Nonlin.polySymbol c (generalLinear c.D a) h))
                                            (fun x h ↦ F2 (Nonlin.polySymbol c (generalLinear c.D a) h))
                                            (fun x h ↦ F3 (Nonlin.polySymbol c (generalLinear c.D a) h))
                                            (fun x h ↦ F4 (Nonlin.polySymbol c (generalLinear c.D a) h))
                                            (fun x h ↦ F5 (Nonlin.polySymbol c (generalLinear c.D a) h))
                                            (fun x h ↦ F6 (Nonlin.polySymbol c (generalLinear c.D a) h))
                                            (EquivND.liftTermND c C (Nonlin.general c C s0 s1 s2 zeroFix)))^[n]
                                        (fun ch h ↦
                                          (Transform.rfftnM c.D c.N ((Array.map (permField c.D c.N σ) u).getD ch #[])).getD
                                            h 0)
                                        ch)) =
                                  permField c.D c.N σ
                                    (Transform.irfftnM c.D c.N
                                      (Transform.tab (Layout.numModes c.D c.N)
                                        ((Gen.Etdrk.E4step (fun x h ↦ F (Nonlin.polySymbol c (generalLinear c.D a) h))
                                              (fun x h ↦ Fh (Nonlin.polySymbol c (generalLinear c.D a) h))
                                              (fun x h ↦ F1 (Nonlin.polySymbol c (generalLinear c.D a) h))
                                              (fun x h ↦ F2 (Nonlin.polySymbol c (generalLinear c.D a) h))
                                              (fun x h ↦ F3 (Nonlin.polySymbol c (generalLinear c.D a) h))
                                              (fun x h ↦ F4 (Nonlin.polySymbol c (generalLinear c.D a) h))
                                              (fun x h ↦ F5 (Nonlin.polySymbol c (generalLinear c.D a) h))
                                              (fun x h ↦ F6 (Nonlin.polySymbol c (generalLinear c.D a) h))
                                              (EquivND.liftTermND c C (Nonlin.general c C s0 s1 s2 zeroFix)))^[n]
                                          (fun ch h ↦ (Transform.rfftnM c.D c.N (Array.getD u ch #[])).getD h 0) ch))) :=
  @Exponax.AxisPerm.E4_axisPerm_general

open Exponax.AxisPerm Exponax.AliasND in
theorem C08_convection_step_commutes_with_axis_and_channel_permutation :
    ∀ (c : Nonlin.Cfg ℂ),
      PermCfg c →
        ∀ (σ : Equiv.Perm (Fin c.D)) (scale : ℂ),
          scale.im = 0 →
            ∀ (conservative : Bool) {E Eh c1 c2 c3 c4 c5 c6 : ℕ → ℕ → ℂ},
              IsoCoef c σ (chanMap σ) E E →
                IsoCoef c σ (chanMap σ) Eh Eh →
                  IsoCoef c σ (chanMap σ) c1 c1 →
                    IsoCoef c σ (chanMap σ) c2 c2 →
                      IsoCoef c σ (chanMap σ) c3 c3 →
                        IsoCoef c σ (chanMap σ) c4 c4 →
                          IsoCoef c σ (chanMap σ) c5 c5 →
                            IsoCoef c σ (chanMap σ) c6 c6 →
                              ∀ (n : ℕ) (u : Nonlin.MC ℂ),
                                Array.size u ≤ c.D →
                                  (∀ (ch : ℕ), AliasND.IsRealND c.D c.N (Array.getD u ch #[])) →
                                    (∀ (ch : ℕ), NyqFreeS c.D c.N (Transform.rfftnM c.D c.N (Array.getD u ch #[]))) →
                                      ∀ (i : Fin c.D),
                                        EquivND.physCh c.D c.N
                                            ((Gen.Etdrk.E4step E Eh c1 c2 c3 c4 c5 c6
                                                  (EquivND.liftTermND c c.D
                                                    (Nonlin.convection c c.D scale false conservative)))^[n]
                                              (EquivND.specMC c.D c.N (permVecMC c σ u)))
                                            ↑(σ i) =
                                          permField c.D c.N σ
                                            (EquivND.physCh c.D c.N
                                              ((Gen.Etdrk.E4step E Eh c1 c2 c3 c4 c5 c6
                                                    (EquivND.liftTermND c c.D
                                                      (Nonlin.convection c c.D scale false conservative)))^[n]
                                                (EquivND.specMC c.D c.N u))
                                              ↑i) :=
  @Exponax.AxisPerm.E4_axisPerm_convection_mc

open Exponax.AxisPerm Exponax.AliasND in
theorem C08_spectrum_of_embedded_state :
    ∀ (E N : ℕ),
      0 < N →
        ∀ (w : Array ℂ),
          ∀ h < Layout.numModes (E + 1) N,
            (Transform.rfftnM (E + 1) N (embedAxis (E + 1) N E w)).getD h 0 =
              if h < N / 2 + 1 then ↑(N ^ E) * (Transform.rfftnM 1 N w).getD h 0 else 0 :=
  @Exponax.AxisPerm.rfftn_embedLast

open Exponax.AxisPerm Exponax.AliasND in
theorem C08_general_term_of_embedded_state :
    ∀ (c : Nonlin.Cfg ℂ),
      0 < c.D →
        0 < c.N →
          ∀ (C : ℕ) (s0 s1 s2 : ℂ) (zeroFix : Bool) (uh uh1 : Nonlin.MC ℂ),
            MCEmbSpec c uh uh1 →
              MCEmbSpec c (Nonlin.general c C s0 s1 s2 zeroFix uh) (Nonlin.general (cfg1 c) C s0 s1 s2 zeroFix uh1) :=
  @Exponax.AxisPerm.general_embed

open Exponax.AxisPerm Exponax.AliasND in
theorem C08_step_of_embedded_state_last_axis :
    ∀ (c : Nonlin.Cfg ℂ),
      0 < c.D →
        0 < c.N →
          ∀ (a : List ℂ) (F Fh F1 F2 F3 F4 F5 F6 : ℂ → ℂ) (s0 s1 s2 : ℂ) (zeroFix : Bool) (n : ℕ) (w : Array ℂ),
            Transform.irfftnM c.D c.N
                (Transform.tab (Layout.numModes c.D c.N)
                  ((Gen.Etdrk.E4step (fun x h ↦ F (Nonlin.polySymbol c (generalLinear c.D a) h))
                        (fun x h ↦ Fh (Nonlin.polySymbol c (generalLinear c.D a) h))
                        (fun x h ↦ F1 (Nonlin.polySymbol c (generalLinear c.D a) h))
                        (fun x h ↦ F2 (Nonlin.polySymbol c (generalLinear c.D a) h))
                        (fun x h ↦ F3 (Nonlin.polySymbol c (generalLinear c.D a) h))
                        (fun x h ↦ F4 (Nonlin.polySymbol c (generalLinear c.D a) h))
                        (fun x h ↦ F5 (Nonlin.polySymbol c (generalLinear c.D a) h))
                        (fun x h ↦ F6 (Nonlin.polySymbol c (generalLinear c.D a) h))
                        (EquivND.liftTermND c 1 (Nonlin.general c 1 s0 s1 s2 zeroFix)))^[n]
                    (fun ch h ↦ (Transform.rfftnM c.D c.N (#[embedAxis c.D c.N (c.D - 1) w].getD ch #[])).getD h 0) 0)) =
              embedAxis c.D c.N (c.D - 1)
                (Transform.irfftnM 1 c.N
                  (Transform.tab (Layout.numModes 1 c.N)
                    ((Gen.Etdrk.E4step
                          (fun x h ↦ F (Nonlin.polySymbol (cfg1 c) (generalLinear 1 (Symmetry.embedCoefs c.D a)) h))
                          (fun x h ↦ Fh (Nonlin.polySymbol (cfg1 c) (generalLinear 1 (Symmetry.embedCoefs c.D a)) h))
                          (fun x h ↦ F1 (Nonlin.polySymbol (cfg1 c) (generalLinear 1 (Symmetry.embedCoefs c.D a)) h))
                          (fun x h ↦ F2 (Nonlin.polySymbol (cfg1 c) (generalLinear 1 (Symmetry.embedCoefs c.D a)) h))
                          (fun x h ↦ F3 (Nonlin.polySymbol (cfg1 c) (generalLinear 1 (Symmetry.embedCoefs c.D a)) h))
                          (fun x h ↦ F4 (Nonlin.polySymbol (cfg1 c) (generalLinear 1 (Symmetry.embedCoefs c.D a)) h))
                          (fun x h ↦ F5 (Nonlin.polySymbol (cfg1 c) (generalLinear 1 (Symmetry.embedCoefs c.D a)) h))
                          (fun x h ↦ F6 (Nonlin.polySymbol (cfg1 c) (generalLinear 1 (Symmetry.embedCoefs c.D a)) h))
                          (EquivND.liftTermND (cfg1 c) 1 (Nonlin.general (cfg1 c) 1 s0 s1 s2 zeroFix)))^[n]
                      (fun ch h ↦ (Transform.rfftnM 1 c.N (#[w].getD ch #[])).getD h 0) 0))) :=
  @Exponax.AxisPerm.E4_general_embed

open Exponax.AxisPerm Exponax.AliasND in
theorem C08_step_of_embedded_state_any_axis :
    ∀ (c : Nonlin.Cfg ℂ),
      PermCfg c →
        ∀ (a : Fin c.D) (al : List ℂ),
          (∀ x ∈ al, x.im = 0) →
            ∀ (F Fh F1 F2 F3 F4 F5 F6 : ℂ → ℂ),
              (∀ G ∈ [F, Fh, F1, F2, F3, F4, F5, F6], ∀ (z : ℂ), G ((starRingEnd ℂ) z) = (starRingEnd ℂ) (G z)) →
                ∀ (s0 s1 s2 : ℂ),
                  s0.im = 0 →
                    s1.im = 0 →
                      s2.im = 0 →
                        ∀ (zeroFix : Bool) (n : ℕ) (w : Array ℂ),
                          (∀ i < c.N, (w.getD i 0).im = 0) →
                            NyqFreeS 1 c.N (Transform.rfftnM 1 c.N w) →
                              EquivND.physCh c.D c.N
                                  ((Gen.Etdrk.E4step (fun x h ↦ F (Nonlin.polySymbol c (generalLinear c.D al) h))
                                        (fun x h ↦ Fh (Nonlin.polySymbol c (generalLinear c.D al) h))
                                        (fun x h ↦ F1 (Nonlin.polySymbol c (generalLinear c.D al) h))
                                        (fun x h ↦ F2 (Nonlin.polySymbol c (generalLinear c.D al) h))
                                        (fun x h ↦ F3 (Nonlin.polySymbol c (generalLinear c.D al) h))
                                        (fun x h ↦ F4 (Nonlin.polySymbol c (generalLinear c.D al) h))
                                        (fun x h ↦ F5 (Nonlin.polySymbol c (generalLinear c.D al) h))
                                        (fun x h ↦ F6 (Nonlin.polySymbol c (generalLinear c.D al) h))
                                        (EquivND.liftTermND c 1 (Nonlin.general c 1 s0 s1 s2 zeroFix)))^[n]
                                    (EquivND.specMC c.D c.N #[embedAxis c.D c.N (↑a) w]))
                                  0 =
                                embedAxis c.D c.N (↑a)
                                  (EquivND.physCh 1 c.N
                                    ((Gen.Etdrk.E4step
                                          (fun x h ↦
                                            F
                                              (Nonlin.polySymbol (cfg1 c)
                                                (generalLinear (cfg1 c).D (Symmetry.embedCoefs c.D al)) h))
                                          (fun x h ↦
                                            Fh
                                              (Nonlin.polySymbol (cfg1 c)
                                                (generalLinear (cfg1 c).D (Symmetry.embedCoefs c.D al)) h))
                                          (fun x h ↦
                                            F1
                                              (Nonlin.polySymbol (cfg1 c)
                                                (generalLinear (cfg1 c).D (Symmetry.embedCoefs c.D al)) h))
                                          (fun x h ↦
                                            F2
                                              (Nonlin.polySymbol (cfg1 c)
                                                (generalLinear (cfg1 c).D (Symmetry.embedCoefs c.D al)) h))
                                          (fun x h ↦
                                            F3
                                              (Nonlin.polySymbol (cfg1 c)
                                                (generalLinear (cfg1 c).D (Symmetry.embedCoefs c.D al)) h))
                                          (fun x h ↦
                                            F4
                                              (Nonlin.polySymbol (cfg1 c)
                                                (generalLinear (cfg1 c).D (Symmetry.embedCoefs c.D al)) h))
                                          (fun x h ↦
                                            F5
                                              (Nonlin.polySymbol (cfg1 c)
                                                (generalLinear (cfg1 c).D (Symmetry.embedCoefs c.D al)) h))
                                          (fun x h ↦
                                            F6
                                              (Nonlin.polySymbol (cfg1 c)
                                                (generalLinear (cfg1 c).D (Symmetry.embedCoefs c.D al)) h))
                                          (EquivND.liftTermND (cfg1 c) 1 (Nonlin.general (cfg1 c) 1 s0 s1 s2 zeroFix)))^[n]
                                      (EquivND.specMC 1 c.N #[w]))
                                    0) :=
  @Exponax.AxisPerm.E4_general_embedAxis



/-! ### axis permutation for the remaining terms: Cahn–Hilliard and pointwise reactions (Gray–Scott, BZ) commute with every axis
permutation; the 2-D vorticity is a pseudo-scalar — under the swap of the two axes the term and the whole step commute with
ω ↦ −P_σ ω (unforced; the Kolmogorov injection singles out an axis) -/

open Exponax.SmallGaps3 Exponax.AxisPerm in
theorem C08_cahn_hilliard_commutes_with_axis_permutation :
    ∀ (c : Nonlin.Cfg ℂ),
      AxisPerm.PermCfg c →
        ∀ (σ : Equiv.Perm (Fin c.D)) (scale : ℂ),
          scale.im = 0 →
            ∀ (uh uh' : Nonlin.MC ℂ),
              AxisPerm.MCSpecPerm c σ id uh uh' →
                AxisPerm.MCSpecPerm c σ id (Nonlin.cahnHilliard c scale uh) (Nonlin.cahnHilliard c scale uh') :=
  @Exponax.SmallGaps3.cahnHilliard_mcSpecPerm

open Exponax.SmallGaps3 Exponax.AxisPerm in
theorem C08_reaction_commutes_with_axis_permutation :
    ∀ (c : Nonlin.Cfg ℂ),
      AxisPerm.PermCfg c →
        ∀ (σ : Equiv.Perm (Fin c.D)) (C : ℕ) (react : List ℂ → List ℂ),
          (∀ (l : List ℂ), (∀ x ∈ l, x.im = 0) → ∀ (ch : ℕ), ((react l).getD ch 0).im = 0) →
            ∀ (uh uh' : Nonlin.MC ℂ),
              AxisPerm.MCSpecPerm c σ id uh uh' →
                AxisPerm.MCSpecPerm c σ id (Nonlin.reaction c C react uh) (Nonlin.reaction c C react uh') :=
  @Exponax.SmallGaps3.reaction_mcSpecPerm

open Exponax.SmallGaps3 Exponax.AxisPerm in
theorem C08_vorticity_term_under_axis_swap :
    ∀ (c : Nonlin.Cfg ℂ),
      AxisPerm.PermCfg c →
        ∀ (hD : 2 ≤ c.D) (scale : ℂ),
          scale.im = 0 →
            ∀ (uh uh' : Nonlin.MC ℂ),
              AxisPerm.MCSpecPerm c (swapσ c hD) id uh uh' →
                AxisPerm.MCSpecPerm c (swapσ c hD) id (Nonlin.vorticity2d c scale none uh)
                  (negMC c (Nonlin.vorticity2d c scale none uh')) :=
  @Exponax.SmallGaps3.vorticity2d_swap

open Exponax.SmallGaps3 Exponax.AxisPerm in
theorem C08_vorticity_step_under_axis_swap :
    ∀ (c : Nonlin.Cfg ℂ),
      AxisPerm.PermCfg c →
        ∀ (hD : 2 ≤ c.D) (scale : ℂ),
          scale.im = 0 →
            ∀ {E Eh c1 c2 c3 c4 c5 c6 : ℕ → ℕ → ℂ},
              AxisPerm.IsoCoef c (swapσ c hD) id E E →
                AxisPerm.IsoCoef c (swapσ c hD) id Eh Eh →
                  AxisPerm.IsoCoef c (swapσ c hD) id c1 c1 →
                    AxisPerm.IsoCoef c (swapσ c hD) id c2 c2 →
                      AxisPerm.IsoCoef c (swapσ c hD) id c3 c3 →
                        AxisPerm.IsoCoef c (swapσ c hD) id c4 c4 →
                          AxisPerm.IsoCoef c (swapσ c hD) id c5 c5 →
                            AxisPerm.IsoCoef c (swapσ c hD) id c6 c6 →
                              ∀ (n : ℕ) (u u' : Nonlin.MC ℂ),
                                (∀ (ch : ℕ), AliasND.IsRealND c.D c.N (Array.getD u ch #[])) →
                                  (∀ (ch : ℕ), AxisPerm.NyqFreeS c.D c.N (Transform.rfftnM c.D c.N (Array.getD u ch #[]))) →
                                    (∀ (ch j : ℕ),
                                        j < c.N ^ c.D →
                                          (Array.getD u' ch #[]).getD j 0 =
                                            -(Array.getD u ch #[]).getD (AxisPerm.permIdx c.D c.N (swapσ c hD) j) 0) →
                                      ∀ (ch j : ℕ),
                                        j < c.N ^ c.D →
                                          (EquivND.physCh c.D c.N
                                                  ((Gen.Etdrk.E4step E Eh c1 c2 c3 c4 c5 c6
                                                        (EquivND.liftTermND c 1 (Nonlin.vorticity2d c scale none)))^[n]
                                                    (EquivND.specMC c.D c.N u'))
                                                  ch).getD
                                              j 0 =
                                            -(EquivND.physCh c.D c.N
                                                    ((Gen.Etdrk.E4step E Eh c1 c2 c3 c4 c5 c6
                                                          (EquivND.liftTermND c 1 (Nonlin.vorticity2d c scale none)))^[n]
                                                      (EquivND.specMC c.D c.N u))
                                                    ch).getD
                                                (AxisPerm.permIdx c.D c.N (swapσ c hD) j) 0 :=
  @Exponax.SmallGaps3.E4_axisSwap_vorticity


end Exponax
