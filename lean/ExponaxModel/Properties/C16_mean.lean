import ExponaxModel.Proofs.BaseStepperGenEq
/-
C16 (continued) — `mean_metric` (regenerated from `exponax/metrics/_utils.py`, the wrapper behind every `mean_*`
metric): the arithmetic mean over the batch of the per-member metric; for one member, or equal members, the metric itself.
-/
set_option linter.unusedVariables false
namespace Exponax
open Exponax.Gen.Base Exponax.BaseStepperGenEq

theorem C16_mean_metric_is_the_batch_mean {S : Type} (f : S → ℂ) (args : List S) :
    mean_metric f args = (args.map f).sum / (args.length : ℂ) :=
  mean_metric_eq f args

theorem C16_mean_metric_single_member {S : Type} (f : S → ℂ) (x : S) : mean_metric f [x] = f x :=
  mean_metric_single f x

theorem C16_mean_metric_equal_members {S : Type} (f : S → ℂ) (x : S) (n : ℕ) (hn : n ≠ 0) :
    mean_metric f (List.replicate n x) = f x :=
  mean_metric_replicate f x n hn

end Exponax
