import Mathlib.Tactic
import ExponaxModel.Model.Loops
import ExponaxModel.Proofs.LoopsLemmas
import ExponaxModel.Proofs.BatchLemmas
/-
C06 — results are invariant under jit, vmap and scan composition — PARTIAL.
What a theorem can carry: the pure-function statements about `Loops.*` below (a batch is a list of states, `vmap f`
is `List.map f`; a swept parameter is `zipWith`).  XLA compilation, tracer semantics and Python-level
value-dependent branching under tracing are not modelled; they are reached by the correspondence (eager /
filter_jit / vmap / vmap∘jit∘rollout outputs of every public stepper class against the single model evaluation) and
by the oracle.
-/
set_option linter.unusedVariables false
namespace Exponax
open Exponax.Loops

/-- mapping `repeat` over a batch equals repeating the mapped stepper -/
theorem C06_repeat_map {S : Type} (f : S → S) (n : ℕ) (us : List S) :
    repeatN (List.map f) n us = us.map (repeatN f n) := repeatN_map f n us

/-- each batch member's result depends only on that member -/
theorem C06_batch_independence {S : Type} (f : S → S) (us : List S) (b : ℕ) (hb : b < us.length) :
    (us.map f)[b]'(by simpa using hb) = f (us[b]) := by simp

/-- time entry `t` of the rollout of the mapped stepper is the batch of the `t`-th iterates -/
theorem C06_rollout_map_entry {S : Type} (f : S → S) (n t : ℕ) (ht : t < n) (us : List S) :
    (rollout (List.map f) n false us)[t]? = some (us.map (f^[t + 1])) := by
  rw [rollout_false_getElem? _ _ _ _ ht]
  congr 1
  induction t generalizing us with
  | zero => simp
  | succ t ih =>
    rw [Function.iterate_succ_apply, ih (by omega)]
    simp [List.map_map, Function.comp, Function.iterate_succ_apply]

/-- vmap∘rollout = transpose(rollout∘vmap): entry `[t][b]` of the rollout of the batched stepper is entry `[b][t]`
    of the batch of rollouts — for every `t`, `b`, in or out of range, with or without the initial state -/
theorem C06_rollout_vmap_transpose {S : Type} (f : S → S) (n : ℕ) (incl : Bool) (us : List S) (t b : ℕ) :
    ((rollout (List.map f) n incl us)[t]?.bind fun x => x[b]?) =
      (List.map (rollout f n incl) us)[b]?.bind fun x => x[t]? := rollout_map_transpose f n incl us t b

/-- no cross-talk: replacing another batch member leaves row `b` of the whole trajectory unchanged -/
theorem C06_no_cross_talk {S : Type} (f : S → S) (n : ℕ) (incl : Bool) (us : List S) (b b' : ℕ) (hb : b' ≠ b)
    (x : S) (t : ℕ) :
    ((rollout (List.map f) n incl (us.set b' x))[t]?.bind fun y => y[b]?) =
      (rollout (List.map f) n incl us)[t]?.bind fun y => y[b]? := rollout_map_row_set f n incl us b b' hb x t

/-- a parameter sweep (vmap over a constructor argument) equals building each stepper separately -/
theorem C06_parameter_sweep {S P : Type} (mk : P → S → S) (ps : List P) (n : ℕ) (incl : Bool) (us : List S)
    (hl : us.length ≤ ps.length) (t b : ℕ) :
    ((rollout (List.zipWith (fun f u => f u) (List.map mk ps)) n incl us)[t]?.bind fun x => x[b]?) =
      ps[b]?.bind fun p => us[b]?.bind fun u => (rollout (mk p) n incl u)[t]? :=
  rollout_sweep_entry mk ps n incl us hl t b

example : repeatN (List.map (· + 1)) 3 [0, 10] = [3, 13] := by decide

end Exponax
