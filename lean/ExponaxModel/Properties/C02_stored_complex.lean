import ExponaxModel.Properties.C02_order
import ExponaxModel.Properties.C02_accuracy
import ExponaxModel.Proofs.LinearTestOrderStoredComplex
/-
C02 (continued) — ORDER of the schemes with the STORED contour coefficients for COMPLEX linear symbols
("… whether that symbol is real (diffusive) or complex (advective/dispersive) … the global error decays like dt^p").

`C02_global_order_partial_stored` (Properties/C02_order.lean) covers real λ ≤ 0, orders 1, 2, 4, with δ = 5e-8.  Here:
  * every complex symbol in the CLOSED LEFT HALF-PLANE `Re λ ≤ 0` (diffusion, advection, dispersion and mixtures), real `dt ≥ 0`,
    `λ·dt` not one of the sixteen quadrature nodes `−ζ_j`, orders p = 1, 2, 3, 4, with the half-plane accuracy δ = 1.7e-12
    (`C02_coefficients_complex_halfplane_accuracy`): n steps of the REGENERATED `E?step` with the REGENERATED `exp_term`,
    `E?_half_exp_term`, `E?_coef_i dt λ 16 1` stay within `Cfloor·(Cloc_p·dt^p + pertD_p(1.7e-12))·‖u‖` of the exact solution;
  * the imaginary axis `Re λ = 0` (advection `−i c k`, dispersion `i k³`) without any node hypothesis
    (`C02_imaginary_symbols_never_on_a_node`, 16 is a multiple of 4);
  * the ETDRK3 case of the real-symbol theorem, which existed as a library lemma only.
The node hypothesis cannot be dropped: `C02_accuracy_iff_off_the_nodes` (on a node the stored coefficients are NOT accurate).
Still `_partial` with respect to the full C02 order statement: linear test family N(u) = μu only (for nonlinear N the results of
Properties/C02_order.lean are for the exact coefficients), and `Re λ ≤ 0` (growing modes have the weaker accuracy
`C02_coefficients_growing_modes_accuracy`, not carried through here).
-/
set_option linter.unusedVariables false
namespace Exponax
open Exponax.Gen.Etdrk Exponax.LinearOrder Exponax.ContourTail

/-! ### complex symbols in the closed left half-plane, one theorem per order -/

/-- stored ETDRK1, complex symbol `Re λ ≤ 0`, `λ dt` off the nodes: global error ≤ C'·dt + C''·1.7e-12 -/
theorem C02_global_order_stored_complex_partial_etdrk1 (l m : ℂ) (T : ℝ) (hl : l.re ≤ 0) (n : ℕ) (dt : ℝ) (hdt : 0 ≤ dt)
    (hn : n * dt ≤ T) (hnode : ∀ ζ ∈ (roots_of_unity 16 : List ℂ), l * (dt : ℂ) ≠ -(1 * ζ)) (u : ℂ) :
    ‖(E1step (exp_term (dt : ℂ) l) (E1_coef_1 (dt : ℂ) l 16 1) (fun v : ℂ => m * v))^[n] u
        - Complex.exp ((l + m) * (n * dt)) * u‖ ≤
      Cfloor (Cloc1 l m T) (pertD1 m δstoredC) (l + m) 1 T * (Cloc1 l m T * dt ^ 1 + pertD1 m δstoredC) * ‖u‖ :=
  stored_E1_global_complex l m T hl n dt hdt hn hnode u

/-- stored ETDRK2, complex symbol: global error ≤ C'·dt² + C''·1.7e-12 -/
theorem C02_global_order_stored_complex_partial_etdrk2 (l m : ℂ) (T : ℝ) (hl : l.re ≤ 0) (n : ℕ) (dt : ℝ) (hdt : 0 ≤ dt)
    (hn : n * dt ≤ T) (hnode : ∀ ζ ∈ (roots_of_unity 16 : List ℂ), l * (dt : ℂ) ≠ -(1 * ζ)) (u : ℂ) :
    ‖(E2step (exp_term (dt : ℂ) l) (E2_coef_1 (dt : ℂ) l 16 1) (E2_coef_2 (dt : ℂ) l 16 1) (fun v : ℂ => m * v))^[n] u
        - Complex.exp ((l + m) * (n * dt)) * u‖ ≤
      Cfloor (Cloc2 l m T) (pertD2 l m T δstoredC) (l + m) 2 T * (Cloc2 l m T * dt ^ 2 + pertD2 l m T δstoredC) * ‖u‖ :=
  stored_E2_global_complex l m T hl n dt hdt hn hnode u

/-- stored ETDRK3, complex symbol: global error ≤ C'·dt³ + C''·1.7e-12 -/
theorem C02_global_order_stored_complex_partial_etdrk3 (l m : ℂ) (T : ℝ) (hl : l.re ≤ 0) (n : ℕ) (dt : ℝ) (hdt : 0 ≤ dt)
    (hn : n * dt ≤ T) (hnode : ∀ ζ ∈ (roots_of_unity 16 : List ℂ), l * (dt : ℂ) ≠ -(1 * ζ)) (u : ℂ) :
    ‖(E3step (exp_term (dt : ℂ) l) (E3_half_exp_term (dt : ℂ) l 16 1) (E3_coef_1 (dt : ℂ) l 16 1) (E3_coef_2 (dt : ℂ) l 16 1)
          (E3_coef_3 (dt : ℂ) l 16 1) (E3_coef_4 (dt : ℂ) l 16 1) (E3_coef_5 (dt : ℂ) l 16 1) (fun v : ℂ => m * v))^[n] u
        - Complex.exp ((l + m) * (n * dt)) * u‖ ≤
      Cfloor (Cloc3 l m T) (pertD3 l m T δstoredC) (l + m) 3 T * (Cloc3 l m T * dt ^ 3 + pertD3 l m T δstoredC) * ‖u‖ :=
  stored_E3_global_complex l m T hl n dt hdt hn hnode u

/-- stored ETDRK4, complex symbol: global error ≤ C'·dt⁴ + C''·1.7e-12 -/
theorem C02_global_order_stored_complex_partial_etdrk4 (l m : ℂ) (T : ℝ) (hl : l.re ≤ 0) (n : ℕ) (dt : ℝ) (hdt : 0 ≤ dt)
    (hn : n * dt ≤ T) (hnode : ∀ ζ ∈ (roots_of_unity 16 : List ℂ), l * (dt : ℂ) ≠ -(1 * ζ)) (u : ℂ) :
    ‖(E4step (exp_term (dt : ℂ) l) (E4_half_exp_term (dt : ℂ) l 16 1) (E4_coef_1 (dt : ℂ) l 16 1) (E4_coef_2 (dt : ℂ) l 16 1)
          (E4_coef_3 (dt : ℂ) l 16 1) (E4_coef_4 (dt : ℂ) l 16 1) (E4_coef_5 (dt : ℂ) l 16 1) (E4_coef_6 (dt : ℂ) l 16 1)
          (fun v : ℂ => m * v))^[n] u
        - Complex.exp ((l + m) * (n * dt)) * u‖ ≤
      Cfloor (Cloc4 l m T) (pertD4 l m T δstoredC) (l + m) 4 T * (Cloc4 l m T * dt ^ 4 + pertD4 l m T δstoredC) * ‖u‖ :=
  stored_E4_global_complex l m T hl n dt hdt hn hnode u

/-- sufficient for the node hypothesis: `‖λ dt‖ ≠ 1` (the nodes lie on the unit circle) -/
theorem C02_off_the_nodes_of_norm_ne_one (l : ℂ) (dt : ℝ) (h : ‖l * (dt : ℂ)‖ ≠ 1) :
    ∀ ζ ∈ (roots_of_unity 16 : List ℂ), l * (dt : ℂ) ≠ -(1 * ζ) :=
  ContourComplex.excluded_of_norm_ne_one 16 _ h

/-! ### the imaginary axis: advection and dispersion symbols, all four orders, no node hypothesis -/

/-- `Re λ = 0` (advection `λ = −i c k`, dispersion `λ = i k³`, …): `λ dt` is never a node
    (`C02_imaginary_symbols_never_on_a_node`), so all four stored steppers converge with their order down to the 1.7e-12 floor -/
theorem C02_global_order_stored_imaginary_axis (l m : ℂ) (T : ℝ) (hl : l.re = 0) (n : ℕ) (dt : ℝ) (hdt : 0 ≤ dt)
    (hn : n * dt ≤ T) (u : ℂ) :
    ‖(E1step (exp_term (dt : ℂ) l) (E1_coef_1 (dt : ℂ) l 16 1) (fun v : ℂ => m * v))^[n] u
        - Complex.exp ((l + m) * (n * dt)) * u‖ ≤
      Cfloor (Cloc1 l m T) (pertD1 m δstoredC) (l + m) 1 T * (Cloc1 l m T * dt ^ 1 + pertD1 m δstoredC) * ‖u‖ ∧
    ‖(E2step (exp_term (dt : ℂ) l) (E2_coef_1 (dt : ℂ) l 16 1) (E2_coef_2 (dt : ℂ) l 16 1) (fun v : ℂ => m * v))^[n] u
        - Complex.exp ((l + m) * (n * dt)) * u‖ ≤
      Cfloor (Cloc2 l m T) (pertD2 l m T δstoredC) (l + m) 2 T * (Cloc2 l m T * dt ^ 2 + pertD2 l m T δstoredC) * ‖u‖ ∧
    ‖(E3step (exp_term (dt : ℂ) l) (E3_half_exp_term (dt : ℂ) l 16 1) (E3_coef_1 (dt : ℂ) l 16 1) (E3_coef_2 (dt : ℂ) l 16 1)
          (E3_coef_3 (dt : ℂ) l 16 1) (E3_coef_4 (dt : ℂ) l 16 1) (E3_coef_5 (dt : ℂ) l 16 1) (fun v : ℂ => m * v))^[n] u
        - Complex.exp ((l + m) * (n * dt)) * u‖ ≤
      Cfloor (Cloc3 l m T) (pertD3 l m T δstoredC) (l + m) 3 T * (Cloc3 l m T * dt ^ 3 + pertD3 l m T δstoredC) * ‖u‖ ∧
    ‖(E4step (exp_term (dt : ℂ) l) (E4_half_exp_term (dt : ℂ) l 16 1) (E4_coef_1 (dt : ℂ) l 16 1) (E4_coef_2 (dt : ℂ) l 16 1)
          (E4_coef_3 (dt : ℂ) l 16 1) (E4_coef_4 (dt : ℂ) l 16 1) (E4_coef_5 (dt : ℂ) l 16 1) (E4_coef_6 (dt : ℂ) l 16 1)
          (fun v : ℂ => m * v))^[n] u
        - Complex.exp ((l + m) * (n * dt)) * u‖ ≤
      Cfloor (Cloc4 l m T) (pertD4 l m T δstoredC) (l + m) 4 T * (Cloc4 l m T * dt ^ 4 + pertD4 l m T δstoredC) * ‖u‖ := by
  have hre : (l * (dt : ℂ)).re = 0 := by rw [Complex.re_mul_ofReal, hl, zero_mul]
  have hnode : ∀ ζ ∈ (roots_of_unity 16 : List ℂ), l * (dt : ℂ) ≠ -(1 * ζ) :=
    C02_imaginary_symbols_never_on_a_node 16 (by norm_num) (by norm_num) (l * (dt : ℂ)) hre
  exact ⟨C02_global_order_stored_complex_partial_etdrk1 l m T hl.le n dt hdt hn hnode u,
    C02_global_order_stored_complex_partial_etdrk2 l m T hl.le n dt hdt hn hnode u,
    C02_global_order_stored_complex_partial_etdrk3 l m T hl.le n dt hdt hn hnode u,
    C02_global_order_stored_complex_partial_etdrk4 l m T hl.le n dt hdt hn hnode u⟩

/-- the form with the symbol written `λ = i ω`, ω real (ω = −c k for advection, ω = k³ for dispersion), ETDRK4 -/
theorem C02_global_order_stored_advection_symbol_etdrk4 (ω : ℝ) (m : ℂ) (T : ℝ) (n : ℕ) (dt : ℝ) (hdt : 0 ≤ dt)
    (hn : n * dt ≤ T) (u : ℂ) :
    ‖(E4step (exp_term (dt : ℂ) (Complex.I * ω)) (E4_half_exp_term (dt : ℂ) (Complex.I * ω) 16 1)
          (E4_coef_1 (dt : ℂ) (Complex.I * ω) 16 1) (E4_coef_2 (dt : ℂ) (Complex.I * ω) 16 1)
          (E4_coef_3 (dt : ℂ) (Complex.I * ω) 16 1) (E4_coef_4 (dt : ℂ) (Complex.I * ω) 16 1)
          (E4_coef_5 (dt : ℂ) (Complex.I * ω) 16 1) (E4_coef_6 (dt : ℂ) (Complex.I * ω) 16 1)
          (fun v : ℂ => m * v))^[n] u
        - Complex.exp ((Complex.I * ω + m) * (n * dt)) * u‖ ≤
      Cfloor (Cloc4 (Complex.I * ω) m T) (pertD4 (Complex.I * ω) m T δstoredC) (Complex.I * ω + m) 4 T *
        (Cloc4 (Complex.I * ω) m T * dt ^ 4 + pertD4 (Complex.I * ω) m T δstoredC) * ‖u‖ :=
  (C02_global_order_stored_imaginary_axis (Complex.I * ω) m T (by simp) n dt hdt hn u).2.2.2

/-! ### the floor -/

/-- the floor is proportional to the coefficient error: δ = 1.7e-12, for ETDRK1 the floor constant is 1.7e-12·‖μ‖, and for
    ETDRK2 (growth factor 1 in the half-plane) an explicit polynomial in ‖μ‖, T -/
theorem C02_stored_complex_floor (l m : ℂ) (T : ℝ) (hl : l.re ≤ 0) (hT : 0 ≤ T) :
    δstoredC = 1.7e-12 ∧ pertD1 m δstoredC = 1.7e-12 * ‖m‖ ∧
      pertD2 l m T δstoredC = 1.7e-12 * (‖m‖ * (1 + (1 + T * (1 + 1.7e-12) * ‖m‖ + 1) + T * (1 / 2) * ‖m‖)) :=
  ⟨rfl, pertD1_storedC m, pertD2_storedC l m T hl hT⟩

/-- the bound split into the order term and the floor term, `C'·dt^p·‖u‖ + C''·δ·‖u‖` (ETDRK1 written out) -/
theorem C02_stored_complex_bound_shape (l m : ℂ) (T dt : ℝ) (u : ℂ) :
    Cfloor (Cloc1 l m T) (pertD1 m δstoredC) (l + m) 1 T * (Cloc1 l m T * dt ^ 1 + pertD1 m δstoredC) * ‖u‖ =
      (Cfloor (Cloc1 l m T) (pertD1 m δstoredC) (l + m) 1 T * Cloc1 l m T) * dt ^ 1 * ‖u‖ +
        (Cfloor (Cloc1 l m T) (pertD1 m δstoredC) (l + m) 1 T * pertK1 ‖m‖) * δstoredC * ‖u‖ :=
  floor_split _ _ _ _ _ _ _

/-! ### ETDRK3 for real symbols (surfacing `stored_E3_global`; completes `C02_global_order_partial_stored`) -/

/-- stored ETDRK3, real λ ≤ 0, δ = 5e-8 -/
theorem C02_global_order_partial_stored_etdrk3 (lam : ℝ) (m : ℂ) (T : ℝ) (hlam : lam ≤ 0) (n : ℕ) (dt : ℝ) (hdt : 0 ≤ dt)
    (hn : n * dt ≤ T) (u : ℂ) :
    ‖(E3step (exp_term (dt : ℂ) (lam : ℂ)) (E3_half_exp_term (dt : ℂ) (lam : ℂ) 16 1) (E3_coef_1 (dt : ℂ) (lam : ℂ) 16 1)
          (E3_coef_2 (dt : ℂ) (lam : ℂ) 16 1) (E3_coef_3 (dt : ℂ) (lam : ℂ) 16 1) (E3_coef_4 (dt : ℂ) (lam : ℂ) 16 1)
          (E3_coef_5 (dt : ℂ) (lam : ℂ) 16 1) (fun v : ℂ => m * v))^[n] u - Complex.exp ((lam + m) * (n * dt)) * u‖ ≤
      Cfloor (Cloc3 lam m T) (pertD3 lam m T δstored) (lam + m) 3 T * (Cloc3 lam m T * dt ^ 3 + pertD3 lam m T δstored) * ‖u‖ :=
  stored_E3_global lam m T hlam n dt hdt hn u

/-! ### non-vacuity -/

/-- `λ = −1 + 2i`, `dt = 1/10`, 10 steps to T = 1: hypotheses hold (`‖λ dt‖² = 1/20`) -/
example : ((-1 : ℂ) + 2 * Complex.I).re ≤ 0 ∧ (0 : ℝ) ≤ 1 / 10 ∧ ((10 : ℕ) : ℝ) * (1 / 10) ≤ 1 ∧
    ∀ ζ ∈ (roots_of_unity 16 : List ℂ), ((-1 : ℂ) + 2 * Complex.I) * ((1 / 10 : ℝ) : ℂ) ≠ -(1 * ζ) := by
  refine ⟨by simp, by norm_num, by norm_num, C02_off_the_nodes_of_norm_ne_one _ _ ?_⟩
  intro h
  have h2 : Complex.normSq (((-1 : ℂ) + 2 * Complex.I) * ((1 / 10 : ℝ) : ℂ)) = 1 := by
    rw [Complex.normSq_eq_norm_sq, h]; norm_num
  rw [Complex.normSq_mul, Complex.normSq_ofReal, Complex.normSq_apply] at h2
  simp at h2
  norm_num at h2

/-- `λ = 3i` (advection), `dt = 1/10`, 10 steps: the imaginary-axis theorem applies as is -/
example (m u : ℂ) :
    ‖(E1step (exp_term ((1 / 10 : ℝ) : ℂ) (3 * Complex.I)) (E1_coef_1 ((1 / 10 : ℝ) : ℂ) (3 * Complex.I) 16 1)
          (fun v : ℂ => m * v))^[10] u
        - Complex.exp ((3 * Complex.I + m) * ((10 : ℕ) * ((1 / 10 : ℝ) : ℂ))) * u‖ ≤
      Cfloor (Cloc1 (3 * Complex.I) m 1) (pertD1 m δstoredC) (3 * Complex.I + m) 1 1 *
        (Cloc1 (3 * Complex.I) m 1 * (1 / 10 : ℝ) ^ 1 + pertD1 m δstoredC) * ‖u‖ :=
  (C02_global_order_stored_imaginary_axis (3 * Complex.I) m 1 (by simp) 10 (1 / 10) (by norm_num) (by norm_num) u).1

example : (-1 : ℝ) ≤ 0 ∧ (0 : ℝ) ≤ 1 / 10 ∧ ((10 : ℕ) : ℝ) * (1 / 10) ≤ 1 := by norm_num

end Exponax
