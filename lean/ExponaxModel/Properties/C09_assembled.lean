import ExponaxModel.Proofs.ConserveAssembled
/-
C09 (continued) — the spatial mean on the ASSEMBLED regenerated step of the stepper classes, every order.

`Interface.X_step` is `Interface.baseStep` (regenerated `BaseStepper.__init__` + `step_fourier`: regenerated `exp_term`,
`E?_half_exp_term`, STORED contour coefficients `E?_coef_i`, regenerated stage formulas `E?step` of the requested order) on the
class's regenerated `_build_linear_operator` and `__init__ → _build_nonlinear_fun` wiring.  States are whole stored multi-channel
spectra `Spec = ℕ → ℕ → ℂ` (channel → flat stored mode); the mean mode is stored mode `0`.

For `conservative = True` and a linear part without zeroth-order term the mean mode of EVERY channel is returned unchanged by
any number of steps — every order `0 … 4` (and the orders the assembly does not implement, where it returns the state), every
`dt`, every contour (`num_circle_points`, `circle_radius`), every `D`, `N`, `L`, every state (no reality, band or well-formedness
hypothesis is needed: the derivative entries of stored mode `0` vanish for every configuration, so the symbol is `D·a₀ = 0`,
`exp_term = 1`, and every stage enters the update only through the nonlinear function, whose mean mode vanishes for every
input).  The statement holds for every channel index `ch` (in particular for `ch <` number of channels).  Physical form
(`D, N ≥ 1`): the grid sum of `irfftn` of the result equals the grid sum of the real input state.
-/
set_option linter.unusedVariables false
namespace Exponax
open Exponax.Interface Exponax.ConserveAssembled Exponax.Gen.StepperWiring

/-- one assembled ETDRK step of ANY order keeps the entry `(ch, 0)` when the symbol array vanishes there and the nonlinear
    map has no `(ch, 0)` output for any input — any `dt`, any stored contour coefficients -/
theorem C09_assembled_step_keeps_mean_mode (p : ℕ) (dt : ℂ) (lam : Spec) (M : ℕ) (r : ℂ) (N : Spec → Spec) (ch : ℕ)
    (hlam : lam ch 0 = 0) (hN : ∀ v, N v ch 0 = 0) (n : ℕ) (u : Spec) :
    ((etdrkStep p dt lam M r N)^[n] u) ch 0 = u ch 0 :=
  etdrkStep_mean_iterate p dt lam M r N ch hlam hN n u

/-- `BaseStepper.__init__` + `step_fourier` of any class whose regenerated linear operator vanishes on the derivative
    entries of stored mode `0` and whose regenerated nonlinear function has zero mean-mode output -/
theorem C09_base_stepper_conserves_mean (b : BaseStepperArgs ℂ) (linop : List ℂ → ℂ)
    (nonlin : Nonlin.Cfg ℂ → Nonlin.MC ℂ → Nonlin.MC ℂ)
    (hl : linop (kappa (baseCfg b.num_spatial_dims b.num_points b.domain_extent) 0) = 0)
    (hn : ∀ uh ch, Nonlin.at2 (nonlin (baseCfg b.num_spatial_dims b.num_points b.domain_extent) uh) ch 0 = 0)
    (n : ℕ) (u : Spec) (ch : ℕ) :
    ((baseStep b linop nonlin)^[n] u) ch 0 = u ch 0 :=
  baseStep_mean_iterate b linop nonlin hl hn n u ch

/-- the regenerated general linear operator at the mean mode vanishes when `a₀ = 0`; the regenerated KdV operator
    vanishes there for every mixing flag -/
theorem C09_linear_operators_zero_mean_mode (c : Nonlin.Cfg ℂ) :
    (∀ a : List ℂ, a.getD 0 0 = 0 → Gen.Steppers.GeneralConvectionStepper_linear_operator (kappa c 0) a = 0) ∧
    (∀ (a3 ν μ : ℂ) (aod dod : Bool), Gen.Steppers.KortewegDeVries_linear_operator (kappa c 0) a3 ν μ aod dod c.D = 0) :=
  ⟨fun a h0 => GeneralConvectionStepper_linear_operator_mean c a h0,
   fun a3 ν μ aod dod => KortewegDeVries_linear_operator_mean c a3 ν μ aod dod⟩

/-- **`GeneralConvectionStepper(conservative=True)`, `a₀ = 0`: the assembled regenerated step conserves the mean mode of
    every channel** — every order, `dt`, contour, `D`, `N`, `L`, every state, any number of steps -/
theorem C09_general_convection_stepper_conserves_mean (g : GeneralConvectionStepperArgs ℂ) (hc : g.conservative = true)
    (h0 : g.linear_coefficients.getD 0 0 = 0) (n : ℕ) (u : Spec) (ch : ℕ) :
    ((GeneralConvectionStepper_step g)^[n] u) ch 0 = u ch 0 :=
  general_convection_mean_conserved g hc h0 n u ch

/-- the form asked for: orders `0 … 4`, channels below the channel count -/
theorem C09_general_convection_stepper_conserves_mean_channels (g : GeneralConvectionStepperArgs ℂ)
    (hc : g.conservative = true) (h0 : g.linear_coefficients.getD 0 0 = 0) (ho : g.order ≤ 4) :
    ∀ (n : ℕ) (u : Spec) (ch : ℕ), ch < (if g.single_channel then 1 else g.num_spatial_dims) →
      ((GeneralConvectionStepper_step g)^[n] u) ch 0 = u ch 0 :=
  fun n u ch _ => general_convection_mean_conserved g hc h0 n u ch

/-- **Burgers (`conservative=True`)**, single- or multi-channel, every order -/
theorem C09_burgers_stepper_conserves_mean (a : BurgersArgs ℂ) (hc : a.conservative = true) (n : ℕ) (u : Spec)
    (ch : ℕ) : ((Burgers_step a)^[n] u) ch 0 = u ch 0 :=
  Burgers_mean_conserved a hc n u ch

/-- **Korteweg–de Vries (`conservative=True`)**, every mixing flag, every `D`, every order -/
theorem C09_kdv_stepper_conserves_mean (a : KortewegDeVriesArgs ℂ) (hc : a.conservative = true) (n : ℕ) (u : Spec)
    (ch : ℕ) : ((KortewegDeVries_step a)^[n] u) ch 0 = u ch 0 :=
  KortewegDeVries_mean_conserved a hc n u ch

/-- **Kuramoto–Sivashinsky in conservative form (`conservative=True`, its default)**, every order -/
theorem C09_ks_conservative_stepper_conserves_mean (a : KuramotoSivashinskyConservativeArgs ℂ)
    (hc : a.conservative = true) (n : ℕ) (u : Spec) (ch : ℕ) :
    ((KuramotoSivashinskyConservative_step a)^[n] u) ch 0 = u ch 0 :=
  KuramotoSivashinskyConservative_mean_conserved a hc n u ch

/-! ### physical space (`gridOf D N v ch = irfftn` of the stored entries of channel `ch`; `specOf D N x` = `rfftn` of each
channel of the grid state `x`) -/

/-- the grid sum of a channel is the real part of its stored mean mode, so a step that keeps the mean mode keeps the
    grid sum (hence the grid mean) — any stored spectrum -/
theorem C09_grid_sum_is_mean_mode (D N : ℕ) (hD : 0 < D) (hN : 0 < N) (v : Spec) (ch : ℕ) :
    ∑ j ∈ Finset.range (N ^ D), (gridOf D N v ch).getD j 0 = (((v ch 0).re : ℝ) : ℂ) :=
  sum_gridOf D N hD hN v ch

/-- **physical form, `GeneralConvectionStepper`**: `n` steps from the spectrum of a real state `x` — the grid sum of every
    channel of `irfftn(result)` equals the grid sum of that channel of `x` -/
theorem C09_general_convection_stepper_conserves_grid_mean (g : GeneralConvectionStepperArgs ℂ)
    (hc : g.conservative = true) (h0 : g.linear_coefficients.getD 0 0 = 0) (hD : 0 < g.num_spatial_dims)
    (hN : 0 < g.num_points) (x : ℕ → Array ℂ) (ch : ℕ)
    (hx : ∀ j < g.num_points ^ g.num_spatial_dims, ((x ch).getD j 0).im = 0) (n : ℕ) :
    ∑ j ∈ Finset.range (g.num_points ^ g.num_spatial_dims),
        (gridOf g.num_spatial_dims g.num_points
          ((GeneralConvectionStepper_step g)^[n] (specOf g.num_spatial_dims g.num_points x)) ch).getD j 0
      = ∑ j ∈ Finset.range (g.num_points ^ g.num_spatial_dims), (x ch).getD j 0 :=
  general_convection_grid_mean_conserved g hc h0 hD hN x ch hx n

/-- **physical form, Burgers / KdV / KS-conservative** -/
theorem C09_specific_steppers_conserve_grid_mean (D N : ℕ) (hD : 0 < D) (hN : 0 < N) (x : ℕ → Array ℂ) (ch : ℕ)
    (hx : ∀ j < N ^ D, ((x ch).getD j 0).im = 0) (n : ℕ) :
    (∀ a : BurgersArgs ℂ, a.conservative = true →
      ∑ j ∈ Finset.range (N ^ D), (gridOf D N ((Burgers_step a)^[n] (specOf D N x)) ch).getD j 0
        = ∑ j ∈ Finset.range (N ^ D), (x ch).getD j 0) ∧
    (∀ a : KortewegDeVriesArgs ℂ, a.conservative = true →
      ∑ j ∈ Finset.range (N ^ D), (gridOf D N ((KortewegDeVries_step a)^[n] (specOf D N x)) ch).getD j 0
        = ∑ j ∈ Finset.range (N ^ D), (x ch).getD j 0) ∧
    (∀ a : KuramotoSivashinskyConservativeArgs ℂ, a.conservative = true →
      ∑ j ∈ Finset.range (N ^ D), (gridOf D N ((KuramotoSivashinskyConservative_step a)^[n] (specOf D N x)) ch).getD j 0
        = ∑ j ∈ Finset.range (N ^ D), (x ch).getD j 0) :=
  ⟨fun a hc => sum_gridOf_specOf D N hD hN x ch hx _ (Burgers_mean_conserved a hc n _ ch),
   fun a hc => sum_gridOf_specOf D N hD hN x ch hx _ (KortewegDeVries_mean_conserved a hc n _ ch),
   fun a hc => sum_gridOf_specOf D N hD hN x ch hx _ (KuramotoSivashinskyConservative_mean_conserved a hc n _ ch)⟩

/-! ### non-vacuity -/

/-- concrete arguments: the defaults with `conservative = True`, `order = 3`, real extent, `D = 1`, `N = 32` -/
example : ∃ g : GeneralConvectionStepperArgs ℂ, g.conservative = true ∧ g.linear_coefficients.getD 0 0 = 0 ∧
    g.order = 3 ∧ g.order ≤ 4 ∧ 0 < g.num_spatial_dims ∧ 0 < g.num_points :=
  ⟨{ GeneralConvectionStepper_with_defaults 1 ((3 : ℝ) : ℂ) 32 (1 / 10) with conservative := true, order := 3 },
    rfl, by simp [GeneralConvectionStepper_with_defaults], rfl, by decide, Nat.one_pos, by decide⟩

/-- the theorem applied to them: three steps of the third-order conservative stepper keep the mean mode of channel 0 -/
example (u : Spec) :
    ((GeneralConvectionStepper_step
      { GeneralConvectionStepper_with_defaults 1 ((3 : ℝ) : ℂ) 32 (1 / 10) with conservative := true, order := 3 })^[3]
        u) 0 0 = u 0 0 :=
  C09_general_convection_stepper_conserves_mean _ rfl (by simp [GeneralConvectionStepper_with_defaults]) 3 u 0

example : ∃ a : BurgersArgs ℂ, a.conservative = true ∧ a.order = 3 :=
  ⟨{ Burgers_with_defaults 1 1 32 (1 / 10) with conservative := true, order := 3 }, rfl, rfl⟩

example : ∃ a : KortewegDeVriesArgs ℂ, a.conservative = true ∧ a.advect_over_diffuse = true :=
  ⟨{ KortewegDeVries_with_defaults 2 1 16 1 with conservative := true, advect_over_diffuse := true }, rfl, rfl⟩

example : ∃ a : KuramotoSivashinskyConservativeArgs ℂ, a.conservative = true :=
  ⟨KuramotoSivashinskyConservative_with_defaults 1 1 32 (1 / 10), rfl⟩

/-- a real grid state -/
example : ∃ x : ℕ → Array ℂ, ∀ j < 32 ^ 1, ((x 0).getD j 0).im = 0 :=
  ⟨fun _ => #[], fun j _ => by simp⟩

end Exponax
