import ExponaxModel.Proofs.SymbolAlgebra
import ExponaxModel.Proofs.WaveAlgebra
import ExponaxModel.Proofs.DFT
import ExponaxModel.Proofs.C2RIsometry
import ExponaxModel.Proofs.StepperSymbols
import ExponaxModel.Proofs.WaveWholeNyquist
import ExponaxModel.Proofs.SmallGapsSymbols
/-
C11 — dissipative and dispersive linear steppers never amplify any state.
Per-mode bounds on the regenerated propagator + sign of the documented symbols + Parseval (half layout).
-/
set_option linter.unusedVariables false
namespace Exponax
open Exponax.Nonlin Exponax.Gen.Etdrk Finset

/-- `|e^{dt·λ}| = e^{dt·Re λ}` -/
theorem C11_abs_propagator (dt : ℝ) (lam : ℂ) : ‖exp_term (dt : ℂ) lam‖ = Real.exp (dt * lam.re) :=
  norm_exp_term_real dt lam

/-- no mode is amplified when `Re λ ≤ 0`, `dt ≥ 0` (any `dt`, however large) -/
theorem C11_mode_not_amplified (dt : ℝ) (lam u : ℂ) (hdt : 0 ≤ dt) (hl : lam.re ≤ 0) :
    ‖E0step (exp_term (dt : ℂ) lam) u‖ ≤ ‖u‖ :=
  norm_E0step_le dt lam u hdt hl

/-- modes with `Re λ < 0` strictly shrink -/
theorem C11_mode_strict (dt : ℝ) (lam : ℂ) (hdt : 0 < dt) (hl : lam.re < 0) : ‖exp_term (dt : ℂ) lam‖ < 1 :=
  norm_exp_term_lt_one dt lam hdt hl

/-- modes with `Re λ = 0` keep their modulus (advection, dispersion) -/
theorem C11_mode_isometry (dt : ℝ) (lam u : ℂ) (hl : lam.re = 0) : ‖E0step (exp_term (dt : ℂ) lam) u‖ = ‖u‖ :=
  norm_E0step_eq dt lam u hl

/-! ### signs of the documented symbols (general `D`) -/

theorem C11_re_advection (c : Cfg ℂ) (s : ℝ) (hs : c.s = (s : ℂ)) (h : ℕ) (v : ℕ → ℝ) :
    (polySymbol c (pscale (-1) (gradInner c.D (fun d => ((v d : ℝ) : ℂ)) 1)) h).re = 0 :=
  advection_symbol_re c s hs h v

theorem C11_re_dispersion (c : Cfg ℂ) (s : ℝ) (hs : c.s = (s : ℂ)) (h : ℕ) (ξ : ℕ → ℝ) :
    (polySymbol c (gradInner c.D (fun d => ((ξ d : ℝ) : ℂ)) 3) h).re = 0 ∧
    (polySymbol c (pmul (gradInner c.D (fun d => ((ξ d : ℝ) : ℂ)) 1) (lapT c.D 1 2)) h).re = 0 :=
  ⟨dispersion_symbol_re c s hs h ξ, dispersion_mixed_symbol_re c s hs h ξ⟩

/-- diffusion with a positive semidefinite matrix (scalar / diagonal / full) -/
theorem C11_re_diffusion (c : Cfg ℂ) (s : ℝ) (hs : c.s = (s : ℂ)) (h : ℕ) (A : ℕ → ℕ → ℝ)
    (hA : ∀ x : Fin c.D → ℝ, 0 ≤ ∑ i : Fin c.D, ∑ j : Fin c.D, A i j * x i * x j) :
    (polySymbol c (quadTerms c.D fun i j => ((A i j : ℝ) : ℂ)) h).re ≤ 0 :=
  diffusion_symbol_re_nonpos c s hs h A hA

theorem C11_re_diffusion_iso (c : Cfg ℂ) (s : ℝ) (hs : c.s = (s : ℂ)) (h : ℕ) (ν : ℝ) (hν : 0 ≤ ν) :
    (polySymbol c (lapT c.D ((ν : ℝ) : ℂ) 2) h).re ≤ 0 ∧ (polySymbol c (lapT c.D ((ν : ℝ) : ℂ) 2) h).im = 0 :=
  diffusion_iso_symbol_re_nonpos c s hs h ν hν

/-- hyper-diffusion (both forms): real, `≤ 0` for `μ ≥ 0`, `< 0` on every non-constant mode when `μ > 0` -/
theorem C11_re_hyper (c : Cfg ℂ) (s : ℝ) (hs : c.s = (s : ℂ)) (h : ℕ) (μ : ℝ) :
    (polySymbol c (lapT c.D (((-μ : ℝ)) : ℂ) 4) h).im = 0 ∧
      (0 ≤ μ → (polySymbol c (lapT c.D (((-μ : ℝ)) : ℂ) 4) h).re ≤ 0) ∧
        (0 < μ → s ≠ 0 → (∃ d < c.D, wnAt c d h ≠ 0) → (polySymbol c (lapT c.D (((-μ : ℝ)) : ℂ) 4) h).re < 0) :=
  hyper_symbol_sign c s hs h μ

theorem C11_re_hyper_mixed (c : Cfg ℂ) (s : ℝ) (hs : c.s = (s : ℂ)) (h : ℕ) (μ : ℝ) :
    (polySymbol c (pscale (((-μ : ℝ)) : ℂ) (pmul (lapT c.D 1 2) (lapT c.D 1 2))) h).im = 0 ∧
      (0 ≤ μ → (polySymbol c (pscale (((-μ : ℝ)) : ℂ) (pmul (lapT c.D 1 2) (lapT c.D 1 2))) h).re ≤ 0) ∧
        (0 < μ → s ≠ 0 → (∃ d < c.D, wnAt c d h ≠ 0) →
          (polySymbol c (pscale (((-μ : ℝ)) : ℂ) (pmul (lapT c.D 1 2) (lapT c.D 1 2))) h).re < 0) :=
  hyper_mixed_symbol_sign c s hs h μ

/-- general linear family: only the even-order coefficients enter the real part -/
theorem C11_re_general_linear (c : Cfg ℂ) (s : ℝ) (hs : c.s = (s : ℂ)) (h : ℕ) (a : List ℝ) :
    (polySymbol c (generalLinear c.D (a.map fun r => ((r : ℝ) : ℂ))) h).re =
      ∑ j ∈ Finset.range a.length,
        if Even j then a.getD j 0 * (-1) ^ (j / 2) * s ^ j * ∑ d ∈ Finset.range c.D, (wnAt c d h : ℝ) ^ j else 0 :=
  general_linear_symbol_re c s hs h a

/-! ### from modes to the L² norm of the state -/

/-- Parseval in the stored half layout, every `D ≥ 1`, `N ≥ 1`: the grid L² norm is the weighted sum of
    `|û_h|²`; so damping every stored coefficient cannot increase it -/
theorem C11_parseval (D N : ℕ) (hD : 0 < D) (hN : 0 < N) (u : Array ℂ) (hu : ∀ j < N ^ D, (u.getD j 0).im = 0) :
    ∑ j ∈ range (N ^ D), ‖u.getD j 0‖ ^ 2
      = (1 / ((N ^ D : ℕ) : ℝ)) * ∑ h ∈ range (Layout.numModes D N),
          (Transform.herm_weight D N h : ℝ) * ‖(Transform.rfftnM D N u).getD h 0‖ ^ 2 :=
  DFT.parseval_nd D N hD hN u hu

/-- weighted spectral energy does not grow under a per-mode contraction `|E_h| ≤ 1` -/
theorem C11_spectral_energy_contracts (M : ℕ) (w : ℕ → ℝ) (hw : ∀ h, 0 ≤ w h) (E uh : ℕ → ℂ)
    (hE : ∀ h < M, ‖E h‖ ≤ 1) :
    ∑ h ∈ range M, w h * ‖E h * uh h‖ ^ 2 ≤ ∑ h ∈ range M, w h * ‖uh h‖ ^ 2 := by
  apply Finset.sum_le_sum
  intro h hh
  have h1 := hE h (Finset.mem_range.mp hh)
  rw [norm_mul, mul_pow]
  have h2 : ‖E h‖ ^ 2 ≤ 1 := by
    have := norm_nonneg (E h)
    nlinarith
  have h3 : 0 ≤ ‖uh h‖ ^ 2 := by positivity
  have h4 : ‖E h‖ ^ 2 * ‖uh h‖ ^ 2 ≤ 1 * ‖uh h‖ ^ 2 := mul_le_mul_of_nonneg_right h2 h3
  rw [one_mul] at h4
  exact mul_le_mul_of_nonneg_left h4 (hw h)

/-- the wave stepper conserves the wave energy `|ω ĥ|² + |v̂|²` of every non-DC mode -/
theorem C11_wave_energy (c dt kn : ℝ) (h v : ℂ) (hc : c ≠ 0) (hkn : kn ≠ 0) :
    ‖((c * kn : ℝ) : ℂ) * (Wave.stepMode (c : ℂ) (dt : ℂ) (kn : ℂ) false h v).1‖ ^ 2 +
        ‖(Wave.stepMode (c : ℂ) (dt : ℂ) (kn : ℂ) false h v).2‖ ^ 2
      = ‖((c * kn : ℝ) : ℂ) * h‖ ^ 2 + ‖v‖ ^ 2 :=
  stepMode_energy c dt kn h v hc hkn

/-- long rollouts: a per-step bound is a bound for every number of steps -/
theorem C11_rollout (S : Type) (nrm : S → ℝ) (step : S → S) (hstep : ∀ u, nrm (step u) ≤ nrm u) (n : ℕ) (u : S) :
    nrm (step^[n] u) ≤ nrm u := by
  induction n generalizing u with
  | zero => exact le_rfl
  | succ n ih => rw [Function.iterate_succ_apply]; exact (ih (step u)).trans (hstep u)

/-! ### the whole step on EVERY real state (white noise, Nyquist content): the c2r transform is a contraction -/

/-- for ANY stored half spectrum `c` (Hermitian-consistent or not) the inverse real transform does not increase the
    Parseval-weighted energy — all D ≥ 1, N ≥ 1 -/
theorem C11_c2r_contraction (D N : ℕ) (hD : 0 < D) (hN : 0 < N) (c : Array ℂ) :
    ∑ j ∈ range (N ^ D), ((Transform.irfftnM D N c).getD j 0).re ^ 2 ≤
      1 / ((N ^ D : ℕ) : ℝ) * ∑ h ∈ range (Layout.numModes D N),
        (Transform.herm_weight D N h : ℝ) * ‖c.getD h 0‖ ^ 2 := C2R.c2r_contraction D N hD hN c

/-- THE PROPERTY for one step: every real state, every `dt ≥ 0`, every symbol with `Re ≤ 0` on the stored modes, with
    the regenerated `E0step` and `exp_term`:  `‖step u‖₂ ≤ ‖u‖₂` -/
theorem C11_step_never_amplifies (D N : ℕ) (hD : 0 < D) (hN : 0 < N) (u : Array ℂ)
    (hu : ∀ j < N ^ D, (u.getD j 0).im = 0) (dt : ℝ) (hdt : 0 ≤ dt) (L : ℕ → ℂ)
    (hL : ∀ h < Layout.numModes D N, (L h).re ≤ 0) :
    ∑ j ∈ range (N ^ D), ((Transform.irfftnM D N (Transform.tab (Layout.numModes D N) fun h =>
        E0step (exp_term (dt : ℂ) (L h)) ((Transform.rfftnM D N u).getD h 0))).getD j 0).re ^ 2
      ≤ ∑ j ∈ range (N ^ D), (u.getD j 0).re ^ 2 :=
  C2R.linear_step_no_amplification_exp_term D N hD hN u hu dt hdt L hL

/-- … and for every state of every rollout (with or without the initial state), any number of steps -/
theorem C11_rollout_never_amplifies (D N : ℕ) (hD : 0 < D) (hN : 0 < N) (E : ℕ → ℂ)
    (hE : ∀ h < Layout.numModes D N, ‖E h‖ ≤ 1) (u : Array ℂ) (hu : ∀ j < N ^ D, (u.getD j 0).im = 0) (n : ℕ)
    (inc : Bool) (v : Array ℂ) (hv : v ∈ Loops.rollout (C2R.linStep D N E) n inc u) :
    ∑ j ∈ range (N ^ D), (v.getD j 0).re ^ 2 ≤ ∑ j ∈ range (N ^ D), (u.getD j 0).re ^ 2 :=
  C2R.linear_rollout_states_no_amplification D N hD hN E hE u hu n inc v hv

/-- EXACT energy budget of one step (no hypothesis on `E`): damping loss + the energy the c2r projection discards on
    the self-conjugate columns -/
theorem C11_energy_budget (D N : ℕ) (hD : 0 < D) (hN : 0 < N) (u : Array ℂ) (hu : ∀ j < N ^ D, (u.getD j 0).im = 0)
    (E : ℕ → ℂ) :
    ∑ j ∈ range (N ^ D), (u.getD j 0).re ^ 2 -
        ∑ j ∈ range (N ^ D), ((Transform.irfftnM D N (Transform.tab (Layout.numModes D N) fun h =>
          E h * (Transform.rfftnM D N u).getD h 0)).getD j 0).re ^ 2 =
      1 / ((N ^ D : ℕ) : ℝ) * ∑ h ∈ range (Layout.numModes D N),
          (Transform.herm_weight D N h : ℝ) * (1 - ‖E h‖ ^ 2) * ‖(Transform.rfftnM D N u).getD h 0‖ ^ 2 +
        1 / ((N ^ D : ℕ) : ℝ) * ∑ h ∈ range (Layout.numModes D N),
          (2 - (Transform.herm_weight D N h : ℝ)) / 4 * ‖E h - (starRingEnd ℂ) (E (C2R.conjIdx D N h))‖ ^ 2 *
            ‖(Transform.rfftnM D N u).getD h 0‖ ^ 2 := C2R.linear_step_energy_budget D N hD hN u hu E

/-- "advection and dispersion preserve the norm exactly on odd grids and on Nyquist-free states": for `|E| = 1` the
    norm is preserved IFF on every self-conjugate stored mode `E` is Hermitian-consistent or the state has no content -/
theorem C11_isometry_iff (D N : ℕ) (hD : 0 < D) (hN : 0 < N) (u : Array ℂ) (hu : ∀ j < N ^ D, (u.getD j 0).im = 0)
    (E : ℕ → ℂ) (hE : ∀ h < Layout.numModes D N, ‖E h‖ = 1) :
    (∑ j ∈ range (N ^ D), ((Transform.irfftnM D N (Transform.tab (Layout.numModes D N) fun h =>
        E h * (Transform.rfftnM D N u).getD h 0)).getD j 0).re ^ 2 = ∑ j ∈ range (N ^ D), (u.getD j 0).re ^ 2) ↔
      ∀ h < Layout.numModes D N, Transform.herm_weight D N h = 1 →
        (E h = (starRingEnd ℂ) (E (C2R.conjIdx D N h)) ∨ (Transform.rfftnM D N u).getD h 0 = 0) :=
  C2R.linear_step_isometry_iff_herm D N hD hN u hu E hE

/-- strict loss does occur otherwise: advection phase at the Nyquist mode of `N = 2` -/
theorem C11_nyquist_loss (θ : ℝ) (hθ : Real.sin θ ≠ 0) :
    ∑ j ∈ range 2, ((Transform.irfftnM 1 2 (Transform.tab (2 / 2 + 1) fun h =>
        C2R.advE θ h * (Transform.rfftnM 1 2 #[1, -1]).getD h 0)).getD j 0).re ^ 2
      < ∑ j ∈ range 2, ((#[1, -1] : Array ℂ).getD j 0).re ^ 2 := C2R.nyquist_counterexample θ hθ


/-! ### signs of the symbols REGENERATED from each class's `_build_linear_operator` (stored modes, real coefficients) -/
open Exponax.Gen.Steppers in
theorem C11_generated_symbol_signs (c : Cfg ℂ) (s : ℝ) (hs : c.s = (s : ℂ)) (h : ℕ) (v ξ : List ℝ) (mix : Bool)
    (A : List (List ℝ)) (μ : ℝ) (hv : v.length = c.D) (hξ : ξ.length = c.D) (hA : A.length = c.D)
    (hr : ∀ r ∈ A, r.length = c.D)
    (hpsd : ∀ x : Fin c.D → ℝ, 0 ≤ ∑ i : Fin c.D, ∑ j : Fin c.D, (A.getD i []).getD j 0 * x i * x j)
    (hμ : 0 ≤ μ) :
    (Advection_linear_operator (kappa c h) (ofRealL v)).re = 0 ∧
    (Dispersion_linear_operator (kappa c h) (ofRealL ξ) mix).re = 0 ∧
    (Diffusion_linear_operator (kappa c h) (ofRealM A)).re ≤ 0 ∧
    (HyperDiffusion_linear_operator (kappa c h) (μ : ℂ) mix).re ≤ 0 :=
  ⟨Advection_linear_operator_re_kappa c s hs h v hv, Dispersion_linear_operator_re_kappa c s hs h ξ mix hξ,
   Diffusion_linear_operator_re_nonpos_kappa c s hs h A hA hr hpsd,
   HyperDiffusion_linear_operator_re_nonpos_kappa c s hs h μ mix hμ⟩

example : (0 : ℝ) ≤ 1e6 ∧ ((-3 : ℂ)).re ≤ 0 := by norm_num


/-! ### wave energy in physical space: Σ v² + c² Σ |∇h|² (spectral gradient) is conserved by the whole step on every real
Nyquist-free pair of states and on every real state of an odd grid, over whole rollouts; with Nyquist content on an even
grid it is NOT (proved counterexample: the spectral derivative of the Nyquist mode is 0 while the stepper rotates it) -/

open Exponax.WaveWhole in
theorem C11_wave_energy_whole_state :
    ∀ (D N : ℕ),
      0 < D →
        0 < N →
          ∀ (c L t : ℝ),
            c ≠ 0 →
              0 < L →
                ∀ (u₀ u₁ : Array ℂ),
                  RealBL D N u₀ →
                    RealBL D N u₁ → waveEnergy D N L c (waveStep D N ↑L ↑t ↑c #[u₀, u₁]) = waveEnergy D N L c #[u₀, u₁] :=
  @Exponax.WaveWhole.waveStep_energy_bandLimited

open Exponax.WaveWhole in
theorem C11_wave_energy_rollout :
    ∀ (D N : ℕ),
      0 < D →
        0 < N →
          ∀ (c L t : ℝ),
            c ≠ 0 →
              0 < L →
                ∀ (u₀ u₁ : Array ℂ),
                  RealBL D N u₀ →
                    RealBL D N u₁ →
                      ∀ (n : ℕ), waveEnergy D N L c ((waveStep D N ↑L ↑t ↑c)^[n] #[u₀, u₁]) = waveEnergy D N L c #[u₀, u₁] :=
  @Exponax.WaveWhole.waveStep_energy_iterate

open Exponax.WaveWhole in
theorem C11_wave_energy_odd_grid :
    ∀ (D N : ℕ),
      0 < D →
        N % 2 = 1 →
          ∀ (c L t : ℝ),
            c ≠ 0 →
              0 < L →
                ∀ (u₀ u₁ : Array ℂ),
                  u₀.size = N ^ D →
                    u₁.size = N ^ D →
                      (∀ j < N ^ D, (u₀.getD j 0).im = 0) →
                        (∀ j < N ^ D, (u₁.getD j 0).im = 0) →
                          waveEnergy D N L c (waveStep D N ↑L ↑t ↑c #[u₀, u₁]) = waveEnergy D N L c #[u₀, u₁] :=
  @Exponax.WaveWhole.waveStep_energy_odd

open Exponax.WaveWhole in
theorem C11_wave_energy_nyquist_counterexample :
    ∀ (c L t : ℝ),
      c ≠ 0 →
        0 < L →
          Real.sin (waveOmega 1 c L [1] * t) ≠ 0 →
            waveEnergy 1 2 L c #[ExactLinear.nyqState, ExactLinear.vzero (2 ^ 1)] = 0 ∧
              0 < waveEnergy 1 2 L c (waveStep 1 2 ↑L ↑t ↑c #[ExactLinear.nyqState, ExactLinear.vzero (2 ^ 1)]) :=
  @Exponax.WaveWhole.wave_energy_nyquist_fails



/-! ### strictness and isometry: a positive-definite diffusivity strictly damps every non-constant mode; advection and
dispersion preserve the grid 2-norm of EVERY real state on odd grids (the Hermitian condition of `C11_isometry_iff`
discharged for the documented symbols) -/

open Exponax.SmallGaps in
theorem C11_re_diffusion_strict :
    ∀ (c : Nonlin.Cfg ℂ),
      1 ≤ c.D →
        0 < c.N →
          ∀ (s : ℝ),
            c.s = ↑s →
              s ≠ 0 →
                ∀ h < Layout.numModes c.D c.N,
                  h ≠ 0 →
                    ∀ (A : ℕ → ℕ → ℝ),
                      (∀ (x : Fin c.D → ℝ), x ≠ 0 → 0 < ∑ i : Fin c.D, ∑ j : Fin c.D, A ↑i ↑j * x i * x j) →
                        (Nonlin.polySymbol c (quadTerms c.D fun i j ↦ ↑(A i j)) h).re < 0 :=
  @Exponax.SmallGaps.diffusion_symbol_re_neg_stored

open Exponax.SmallGaps in
theorem C11_diffusion_mode_strictly_shrinks :
    ∀ (c : Nonlin.Cfg ℂ),
      1 ≤ c.D →
        0 < c.N →
          ∀ (s : ℝ),
            c.s = ↑s →
              s ≠ 0 →
                ∀ h < Layout.numModes c.D c.N,
                  h ≠ 0 →
                    ∀ (A : ℕ → ℕ → ℝ),
                      (∀ (x : Fin c.D → ℝ), x ≠ 0 → 0 < ∑ i : Fin c.D, ∑ j : Fin c.D, A ↑i ↑j * x i * x j) →
                        ∀ (dt : ℝ),
                          0 < dt →
                            ∀ (u : ℂ),
                              u ≠ 0 →
                                ‖Gen.Etdrk.exp_term (↑dt) (Nonlin.polySymbol c (quadTerms c.D fun i j ↦ ↑(A i j)) h)‖ < 1 ∧
                                  ‖Gen.Etdrk.E0step
                                        (Gen.Etdrk.exp_term (↑dt)
                                          (Nonlin.polySymbol c (quadTerms c.D fun i j ↦ ↑(A i j)) h))
                                        u‖ <
                                    ‖u‖ :=
  @Exponax.SmallGaps.diffusion_mode_strictly_shrinks

open Exponax.SmallGaps in
theorem C11_advection_isometry_odd :
    ∀ (c : Nonlin.Cfg ℂ),
      0 < c.D →
        c.N % 2 = 1 →
          ∀ (s : ℝ),
            c.s = ↑s →
              ∀ (v : ℕ → ℝ) (u : Array ℂ),
                (∀ j < c.N ^ c.D, (u.getD j 0).im = 0) →
                  ∀ (dt : ℝ),
                    ∑ j ∈ Finset.range (c.N ^ c.D),
                        ((Transform.irfftnM c.D c.N
                                  (Transform.tab (Layout.numModes c.D c.N) fun h ↦
                                    Gen.Etdrk.E0step
                                      (Gen.Etdrk.exp_term (↑dt)
                                        (Nonlin.polySymbol c (pscale (-1) (gradInner c.D (fun d ↦ ↑(v d)) 1)) h))
                                      ((Transform.rfftnM c.D c.N u).getD h 0))).getD
                              j 0).re ^
                          2 =
                      ∑ j ∈ Finset.range (c.N ^ c.D), (u.getD j 0).re ^ 2 :=
  @Exponax.SmallGaps.advection_isometry_odd

open Exponax.SmallGaps in
theorem C11_dispersion_isometry_odd :
    ∀ (c : Nonlin.Cfg ℂ),
      0 < c.D →
        c.N % 2 = 1 →
          ∀ (s : ℝ),
            c.s = ↑s →
              ∀ (ξ : ℕ → ℝ) (u : Array ℂ),
                (∀ j < c.N ^ c.D, (u.getD j 0).im = 0) →
                  ∀ (dt : ℝ),
                    ∑ j ∈ Finset.range (c.N ^ c.D),
                        ((Transform.irfftnM c.D c.N
                                  (Transform.tab (Layout.numModes c.D c.N) fun h ↦
                                    Gen.Etdrk.E0step
                                      (Gen.Etdrk.exp_term (↑dt) (Nonlin.polySymbol c (gradInner c.D (fun d ↦ ↑(ξ d)) 3) h))
                                      ((Transform.rfftnM c.D c.N u).getD h 0))).getD
                              j 0).re ^
                          2 =
                      ∑ j ∈ Finset.range (c.N ^ c.D), (u.getD j 0).re ^ 2 :=
  @Exponax.SmallGaps.dispersion_isometry_odd


end Exponax
