import ExponaxModel.Proofs.BaseStepperGenEq
/-
C13 (continued) — `Interface.baseStep`, the assembly every step-level equivalence theorem of `Properties/C13_assembly.lean`
is stated about, IS what the regenerated `BaseStepper.__init__` + `step_fourier` evaluate (`Generated/BaseStepperGen.lean`,
rewritten from `exponax/_base_stepper.py` on every run).  So those theorems are about the constructor as it is now.
-/
set_option linter.unusedVariables false
namespace Exponax
open Exponax.Layout Exponax.Nonlin Exponax.Gen.StepperWiring Exponax.Gen.Base Exponax.Interface
open Exponax.BaseStepperGenEq
open Exponax.EquivND (liftTermND)

theorem C13_base_step_is_the_regenerated_constructor (b : BaseStepperArgs ℂ) (h : b.order ≤ 4) (linop : List ℂ → ℂ)
    (nonlin : Cfg ℂ → MC ℂ → MC ℂ) (u : Spec) :
    BaseStepper_step_fourier b
        (entrywiseOf (fun _ h => linop (kappa (baseCfg b.num_spatial_dims b.num_points b.domain_extent) h)))
        (liftTermND (baseCfg b.num_spatial_dims b.num_points b.domain_extent) b.num_channels
          (nonlin (baseCfg b.num_spatial_dims b.num_points b.domain_extent))) u
      = some (baseStep b linop nonlin u) :=
  BaseStepper_step_fourier_baseStep b h linop nonlin u

/-- both builders of every stepper receive the derivative operator of the user's `(D, L, N)` -/
theorem C13_base_builders_share_the_derivative_operator (b : BaseStepperArgs ℂ) :
    BaseStepper_init_derivative_operator_args b = (b.num_spatial_dims, b.domain_extent, b.num_points, "ij") ∧
      BaseStepper_init_builders.map Prod.snd = ["_build_linear_operator", "_build_nonlinear_fun"] :=
  ⟨rfl, rfl⟩

end Exponax
