import ExponaxModel.Model.Layout
/-
Decision logic of the input / configuration guards (C20): shape checks of
`BaseStepper.__call__`, `RepeatedStepper.__call__`, `Poisson.__call__`,
dimension restrictions of constructors, derivative-order parity, generator and
metric option validation.
-/
namespace Exponax.Guards
open Exponax.Layout

/-- `Poisson.__call__`: only the spatial part of the shape is checked -/
def acceptsPoisson (D N : Nat) (shape : List Nat) : Bool :=
  shape.drop 1 == spatialShape D N

/-- constructors restricted to one dimension (`none` = any of 1, 2, 3) -/
def dimOk (only : Option Nat) (D : Nat) : Bool :=
  match only with
  | none => true
  | some d => D == d

/-- `build_laplace_operator`: even orders only -/
def laplaceOrderOk (order : Nat) : Bool := order % 2 == 0
/-- `build_gradient_inner_product_operator`: odd orders only -/
def gradInnerOrderOk (order : Nat) : Bool := order % 2 == 1
/-- … and the velocity must have one entry per dimension -/
def velocityShapeOk (D : Nat) (shape : List Nat) : Bool := shape == [D]

/-- `validate_normalization_options` of the IC generators: accepted? -/
def icNormOk (zeroMean stdOne maxOne : Bool) : Bool :=
  !(!zeroMean && stdOne) && !(stdOne && maxOne)

/-- `spatial_norm` / `fourier_norm`: mode 0 = absolute, 1 = normalized, 2 = symmetric; accepted? -/
def metricModeOk (mode : Nat) (hasRef : Bool) : Bool :=
  hasRef || mode == 0

/-- multi-channel convection requires as many channels as dimensions -/
def convChannelsOk (single : Bool) (C D : Nat) : Bool := single || C == D

/-- reaction nonlinearities with a fixed channel count -/
def fixedChannelsOk (need C : Nat) : Bool := C == need

/-- `GeneralNonlinearFun` needs exactly three scales -/
def scaleListOk (n : Nat) : Bool := n == 3

/-- `stack_sub_trajectories` window guard -/
def windowOk (T subLen : Nat) : Bool := subLen ≤ T

end Exponax.Guards
