/-
Code-mirror of `rollout`, `repeat`, `stack_sub_trajectories` (exponax/_utils.py)
and of `RepeatedStepper.step_fourier`.  `lax.scan` with `length = n` is a fold
over the first `n` auxiliary inputs (or over `n` units).  States and auxiliary
inputs are arbitrary types (pytrees are handled by the harness leaf-wise).
-/
namespace Exponax.Loops

/-- the `scan` of `rollout` without aux: returns the list of the `n` successive states -/
def scanStates {S : Type} (f : S → S) : Nat → S → List S
  | 0, _ => []
  | n + 1, u => let u' := f u; u' :: scanStates f n u'

/-- `rollout(f, n, include_init)(u0)` -/
def rollout {S : Type} (f : S → S) (n : Nat) (includeInit : Bool) (u0 : S) : List S :=
  let trj := scanStates f n u0
  if includeInit then u0 :: trj else trj

/-- the `scan` of `rollout` with aux: consumes the aux list in order -/
def scanStatesAux {S A : Type} (f : S → A → S) : List A → S → List S
  | [], _ => []
  | a :: as, u => let u' := f u a; u' :: scanStatesAux f as u'

/-- `rollout(f, n, include_init, takes_aux=True, constant_aux)(u0, aux)`;
    `constant_aux` repeats the single aux `n` times, otherwise the first `n` entries of the
    aux sequence are consumed (`scan(..., length=n)` requires exactly `n`) -/
def rolloutAux {S A : Type} (f : S → A → S) (n : Nat) (includeInit constantAux : Bool)
    (u0 : S) (aux : List A) : List S :=
  let auxs := if constantAux then List.replicate n (aux.head?) |>.filterMap id else aux.take n
  let trj := scanStatesAux f auxs u0
  if includeInit then u0 :: trj else trj

/-- `repeat(f, n)(u0)` -/
def repeatN {S : Type} (f : S → S) : Nat → S → S
  | 0, u => u
  | n + 1, u => repeatN f n (f u)

/-- `repeat(f, n, takes_aux=True, constant_aux)(u0, aux)` -/
def repeatAux {S A : Type} (f : S → A → S) (n : Nat) (constantAux : Bool) (u0 : S) (aux : List A) : S :=
  let auxs := if constantAux then List.replicate n (aux.head?) |>.filterMap id else aux.take n
  auxs.foldl f u0

/-- `stack_sub_trajectories(trj, sub_len)`: `none` = rejected with ValueError -/
def stackSub {S : Type} (trj : List S) (subLen : Nat) : Option (List (List S)) :=
  if subLen > trj.length then none
  else some ((List.range (trj.length - subLen + 1)).map (fun i => (trj.drop i).take subLen))

/-- `RepeatedStepper.step_fourier` -/
def repeatedStepFourier {S : Type} (stepFourier : S → S) (numSubSteps : Nat) (uHat : S) : S :=
  repeatN stepFourier numSubSteps uHat

/-- `RepeatedStepper.dt` -/
def repeatedDt {K : Type} [Mul K] [NatCast K] (dt : K) (numSubSteps : Nat) : K :=
  dt * (NatCast.natCast numSubSteps)

end Exponax.Loops
