import ExponaxModel.Model.Ops
import ExponaxModel.Model.Layout
import ExponaxModel.Model.Transform
import ExponaxModel.Generated.Misc
/-
Code-mirror of the linear symbols (as polynomial symbols of the documented
operators) and of the pseudo-spectral nonlinear terms in
`exponax/nonlin_fun/*.py`, `stepper/reaction/*.py`: each is the literal pipeline
`ifft(mask·û) → pointwise product → mask·fft(·) → symbol`.

A multi-channel spectrum is a function `channel → flat mode index → K`.
-/
namespace Exponax.Nonlin
open Exponax.Layout Exponax.Transform

section
variable {K : Type} [Add K] [Sub K] [Mul K] [Div K] [Neg K] [Zero K] [One K] [NatCast K] [IntCast K]
  [HasExp K] [HasI K] [HasPi K] [HasRe K] [HasIsZero K]

/-- static configuration of a nonlinear function: dimension, points, `s = 2π/L`, dealiasing
    fraction `fp/fq` (`fq = 0` encodes "no dealiasing mask") -/
structure Cfg (K : Type) where
  D : Nat
  N : Nat
  s : K
  fp : Nat
  fq : Nat

/-- a multi-channel field / spectrum: one array per channel -/
abbrev MC (K : Type) := Array (Array K)

def at2 (a : MC K) (ch i : Nat) : K := (a.getD ch #[]).getD i 0

/-- tabulate `nc` channels of `n` entries -/
def tab2 (nc n : Nat) (f : Nat → Nat → K) : MC K := tab nc (fun ch => tab n (f ch))

/-- tabulate channels from whole-channel constructors -/
def tabC (nc : Nat) (f : Nat → Array K) : MC K := tab nc f

/-- derivative operator entry `i·(2π/L)·k_d` at stored mode `h` -/
def deriv (c : Cfg K) (d h : Nat) : K :=
  HasI.I * (c.s * (IntCast.intCast ((wnFlat c.D c.N h).getD d 0) : K))

/-- symbol of a documented constant-coefficient operator given as monomials
    `(coefficient, exponents α)`: `Σ c · Π_d (i s k_d)^{α_d}` -/
def polySymbol (c : Cfg K) (terms : List (K × List Nat)) (h : Nat) : K :=
  sumList (terms.map (fun t =>
    t.1 * prodList ((List.range c.D).map (fun d => npow (deriv c d h) (t.2.getD d 0)))))

/-- `build_laplace_operator(order)` -/
def laplace (c : Cfg K) (order : Nat) (h : Nat) : K :=
  if order = 0 then 1 else sumList ((List.range c.D).map (fun d => npow (deriv c d h) order))

def mask (c : Cfg K) (h : Nat) : K :=
  if c.fq = 0 then 1 else if dealiasMask c.N c.fp c.fq (wnFlat c.D c.N h) then 1 else 0

def gridSize (c : Cfg K) : Nat := c.N ^ c.D
def modes (c : Cfg K) : Nat := numModes c.D c.N

/-- `BaseNonlinearFun.fft` (transform, then mask) -/
def nfft (c : Cfg K) (u : Array K) : Array K :=
  let uh := rfftnM c.D c.N u
  tab (modes c) (fun h => mask c h * uh.getD h 0)

/-- `BaseNonlinearFun.ifft` (mask, then inverse transform) -/
def nifft (c : Cfg K) (uh : Array K) : Array K :=
  irfftnM c.D c.N (tab (modes c) (fun h => mask c h * uh.getD h 0))

/-- `ConvectionNonlinearFun`, all four variants; `C` = number of channels of `û` -/
def convection (c : Cfg K) (C : Nat) (scale : K) (single conservative : Bool) (uh : MC K) : MC K :=
  let G := gridSize c
  let M := modes c
  let u : MC K := tabC C (fun ch => nifft c (uh.getD ch #[]))
  if single then
    if conservative then
      let sq : MC K := tabC C (fun ch => nfft c (tab G (fun j => at2 u ch j * at2 u ch j)))
      tab2 C M (fun ch h =>
        -scale * (qlit 1 2 * sumList ((List.range c.D).map (fun d => deriv c d h)) * at2 sq ch h))
    else
      -- u·Σ_d ∂_d u  (one channel)
      let nab : MC K := tabC c.D (fun d => nifft c (tab M (fun h => deriv c d h * at2 uh 0 h)))
      let conv := nfft c (tab G (fun j => sumList ((List.range c.D).map (fun d => at2 u 0 j * at2 nab d j))))
      tab2 1 M (fun _ h => -scale * conv.getD h 0)
  else
    if conservative then
      -- outer[i,j] = u_j u_i ; out_i = ½ Σ_j d_j · fft(outer[i,j])
      let outer : MC K := tabC (C * C) (fun ij => nfft c (tab G (fun x => at2 u (ij % C) x * at2 u (ij / C) x)))
      tab2 C M (fun i h =>
        -scale * (qlit 1 2 * sumList ((List.range C).map (fun j => deriv c j h * at2 outer (i * C + j) h))))
    else
      let nab : MC K := tabC (C * C) (fun ij => nifft c (tab M (fun h => deriv c (ij % C) h * at2 uh (ij / C) h)))
      let conv : MC K := tabC C (fun i =>
        nfft c (tab G (fun x => sumList ((List.range C).map (fun j => at2 u j x * at2 nab (i * C + j) x)))))
      tab2 C M (fun i h => -scale * at2 conv i h)

/-- `GradientNormNonlinearFun` -/
def gradientNorm (c : Cfg K) (C : Nat) (scale : K) (zeroFix : Bool) (uh : MC K) : MC K :=
  let G := gridSize c
  let M := modes c
  let g : MC K := tabC (C * c.D) (fun cd => nifft c (tab M (fun h => deriv c (cd % c.D) h * at2 uh (cd / c.D) h)))
  let q : MC K := tab2 C G (fun ch x =>
    sumList ((List.range c.D).map (fun d => at2 g (ch * c.D + d) x * at2 g (ch * c.D + d) x)))
  let mean : Array K := tab C (fun ch => sumRange G (fun x => at2 q ch x) / lit G)
  let q' : MC K := tab2 C G (fun ch x => if zeroFix then at2 q ch x - mean.getD ch 0 else at2 q ch x)
  let qh : MC K := tabC C (fun ch => nfft c (q'.getD ch #[]))
  tab2 C M (fun ch h => -scale * (qlit 1 2 * at2 qh ch h))

/-- the Horner-like loop of `PolynomialNonlinearFun` on one value -/
def polyEval (coeffs : List K) (u : K) : K :=
  (coeffs.foldl (fun (acc : K × K) co => (acc.1 + co * acc.2, acc.2 * u)) (0, 1)).1

/-- `PolynomialNonlinearFun` -/
def polynomial (c : Cfg K) (C : Nat) (coeffs : List K) (uh : MC K) : MC K :=
  let G := gridSize c
  let u : MC K := tabC C (fun ch => nifft c (uh.getD ch #[]))
  tabC C (fun ch => nfft c (tab G (fun x => polyEval coeffs (at2 u ch x))))

/-- `GeneralNonlinearFun` with `scale_list = (s0, s1, s2)` -/
def general (c : Cfg K) (C : Nat) (s0 s1 s2 : K) (zeroFix : Bool) (uh : MC K) : MC K :=
  let M := modes c
  let a := polynomial c C [0, 0, s0] uh
  let b := convection c C (-s1) true true uh
  let g := gradientNorm c C (-s2) zeroFix uh
  tab2 C M (fun ch h => at2 a ch h + at2 b ch h + at2 g ch h)

/-- guarded inverse Laplacian of `VorticityConvection2d`: `where(lap == 0, 1, 1/lap)` -/
def invLapOne (c : Cfg K) (h : Nat) : K :=
  let l := laplace c 2 h
  if HasIsZero.isZero l then 1 else 1 / l

/-- guarded inverse Laplacian of `Leray`: `where(lap != 0, 1/lap, 0)` -/
def invLapZero (c : Cfg K) (h : Nat) : K :=
  let l := laplace c 2 h
  if HasIsZero.isZero l then 0 else 1 / l

/-- `Poisson.step_fourier` at one mode: `-(where(op == 0, 0, 1/op)) · f̂` with `op = build_laplace_operator(order)` -/
def poissonStep (c : Cfg K) (order : Nat) (h : Nat) (f : K) : K :=
  let op := laplace c order h
  let inv : K := if HasIsZero.isZero op then 0 else 1 / op
  (-inv) * f

/-- `derivative(u, L, order)` along axis `d` on one channel: `ifft((i s k_d)^order · fft(u))` -/
def derivativeM (c : Cfg K) (order d : Nat) (u : Array K) : Array K :=
  let uh := rfftnM c.D c.N u
  irfftnM c.D c.N (tab (modes c) (fun h => npow (deriv c d h) order * uh.getD h 0))

/-- `VorticityConvection2d` (+ Kolmogorov injection `(mode, scale)` when given) -/
def vorticity2d (c : Cfg K) (scale : K) (inj : Option (Nat × K)) (uh : MC K) : MC K :=
  let G := gridSize c
  let M := modes c
  let psi : Array K := tab M (fun h => invLapOne c h * at2 uh 0 h)
  let u := nifft c (tab M (fun h => deriv c 1 h * psi.getD h 0))
  let v := nifft c (tab M (fun h => -(deriv c 0 h) * psi.getD h 0))
  let wx := nifft c (tab M (fun h => deriv c 0 h * at2 uh 0 h))
  let wy := nifft c (tab M (fun h => deriv c 1 h * at2 uh 0 h))
  let conv := nfft c (tab G (fun x => u.getD x 0 * wx.getD x 0 + v.getD x 0 * wy.getD x 0))
  tab2 1 M (fun _ h =>
    let base := -scale * conv.getD h 0
    match inj with
    | none => base
    | some (m, gam) =>
      let k := wnFlat c.D c.N h
      -- `-derivative_operator[1].imag * injection_scale * scaling` on the mask `(k₀ = 0, k₁ = m)`
      if k.getD 0 0 == 0 && k.getD 1 0 == (m : Int) then
        base + (-(c.s * (IntCast.intCast (k.getD 1 0) : K)) * gam * scaling c.D c.N 2 (unflatten (wavenumberShape c.D c.N) h))
      else base + 0)

/-- `Leray.__call__` on a `D`-channel spectrum -/
def leray (c : Cfg K) (uh : MC K) : MC K :=
  let M := modes c
  let div : Array K := tab M (fun h => sumList ((List.range c.D).map (fun d => deriv c d h * at2 uh d h)))
  let p : Array K := tab M (fun h => -(invLapZero c h) * div.getD h 0)
  tab2 c.D M (fun d h => at2 uh d h + deriv c d h * p.getD h 0)

def proj3 (r : K × K × K) (i : Nat) : K := if i = 0 then r.1 else if i = 1 then r.2.1 else r.2.2

/-- `ProjectedConvection3d` (+ Kolmogorov injection) -/
def projected3d (c : Cfg K) (inj : Option (Nat × K)) (uh : MC K) : MC K :=
  let G := gridSize c
  let M := modes c
  let curlH : MC K := tab2 3 M (fun i h =>
    proj3 (Gen.Misc.cross_product_3d (deriv c 0 h, deriv c 1 h, deriv c 2 h) (at2 uh 0 h, at2 uh 1 h, at2 uh 2 h)) i)
  let curl : MC K := tabC 3 (fun i => nifft c (curlH.getD i #[]))
  let vel : MC K := tabC 3 (fun i => nifft c (uh.getD i #[]))
  let conv : MC K := tab2 3 G (fun i x =>
    proj3 (Gen.Misc.cross_product_3d (at2 vel 0 x, at2 vel 1 x, at2 vel 2 x) (at2 curl 0 x, at2 curl 1 x, at2 curl 2 x)) i)
  let convH : MC K := tabC 3 (fun i => nfft c (conv.getD i #[]))
  let proj := leray c convH
  tab2 3 M (fun i h =>
    match inj with
    | none => at2 proj i h
    | some (m, gam) =>
      let k := wnFlat c.D c.N h
      -- both conjugate modes `(0, ±m, 0)` of `γ sin(m s x₁)`: `∓ i·γ·scaling`
      let amp := gam * scaling c.D c.N 2 (unflatten (wavenumberShape c.D c.N) h)
      if i = 0 && k.getD 0 0 == 0 && k.getD 2 0 == 0 && k.getD 1 0 == (m : Int) then
        at2 proj i h + (-(HasI.I) * amp)
      else if i = 0 && k.getD 0 0 == 0 && k.getD 2 0 == 0 && k.getD 1 0 == -(m : Int) then
        at2 proj i h + HasI.I * amp
      else at2 proj i h + 0)

/-- pointwise reaction terms on physical values (channels as a list) -/
def grayScottReact (feed kill : K) (u : List K) : List K :=
  let a := u.getD 0 0; let b := u.getD 1 0
  [feed * (1 - a) - a * (b * b), -(feed + kill) * b + a * (b * b)]

def bzReact (u : List K) : List K :=
  let a := u.getD 0 0; let b := u.getD 1 0; let d := u.getD 2 0
  [a + b - a * b - a * a, d - b - a * b, a - d]

/-- reaction nonlinearity: `fft(react(ifft(dealias(û))))` -/
def reaction (c : Cfg K) (C : Nat) (react : List K → List K) (uh : MC K) : MC K :=
  let G := gridSize c
  let M := modes c
  let u : MC K := tabC C (fun ch => nifft c (tab M (fun h => mask c h * at2 uh ch h)))
  let r : MC K := tab2 C G (fun ch x => (react ((List.range C).map (fun k => at2 u k x))).getD ch 0)
  tabC C (fun ch => nfft c (r.getD ch #[]))

/-- `CahnHilliardNonlinearFun`: `scale · Δ̂ · fft(u³)` -/
def cahnHilliard (c : Cfg K) (scale : K) (uh : MC K) : MC K :=
  let G := gridSize c
  let M := modes c
  let u := nifft c (tab M (fun h => mask c h * at2 uh 0 h))
  let cube := nfft c (tab G (fun x => u.getD x 0 * u.getD x 0 * u.getD x 0))
  tab2 1 M (fun _ h => laplace c 2 h * cube.getD h 0 * scale)

end
end Exponax.Nonlin
