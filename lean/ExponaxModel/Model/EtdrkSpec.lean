import ExponaxModel.Model.Ops
/-
Specification layer for the ETDRK family: φ-functions (closed forms away from
0), the contour mean of Kassam–Trefethen, and the Cox–Matthews (2002) schemes
written as in the paper.  Hand-written; the translated code (`Gen.Etdrk`) is
proved equal to this in `Properties/C02.lean`.
-/
namespace Exponax.Spec

section
variable {K : Type} [Add K] [Sub K] [Mul K] [Div K] [One K] [NatCast K] [HasExp K]

/-- φ₁(z) = (eᶻ − 1)/z -/
def phi1 (z : K) : K := (exp z - 1) / z
/-- φ₂(z) = (eᶻ − 1 − z)/z² -/
def phi2 (z : K) : K := (exp z - 1 - z) / (z * z)
/-- φ₃(z) = (eᶻ − 1 − z − z²/2)/z³ -/
def phi3 (z : K) : K := (exp z - 1 - z - z * z / lit 2) / (z * z * z)

end

section
variable {K : Type} [Add K] [Mul K] [Div K] [Zero K] [NatCast K]

/-- `M`-point mean of `f` over the nodes `z + r·ζ` (ζ ranging over the list of roots) -/
def contourMean (roots : List K) (r : K) (f : K → K) (z : K) : K :=
  sumList (roots.map (fun ζ => f (r * ζ + z))) / lit roots.length
end

section
variable {V : Type} [Add V] [Sub V] [Mul V] [NatCast V]

/-- ETDRK1 (exponential Euler): `u' = E u + (dt φ₁) N(u)` -/
def cm1 (E a1 : V) (N : V → V) (u : V) : V := E * u + a1 * N u

/-- Cox–Matthews ETDRK2, eq. (20)-(22): `a = E u + (dt φ₁) N(u)`, `u' = a + (dt φ₂)(N(a) − N(u))` -/
def cm2 (E a1 a2 : V) (N : V → V) (u : V) : V :=
  let a := E * u + a1 * N u
  a + a2 * (N a - N u)

/-- Cox–Matthews ETDRK3, eq. (23)-(25) -/
def cm3 (E Eh ah a1 b1 b2 b3 : V) (N : V → V) (u : V) : V :=
  let a := Eh * u + ah * N u
  let b := E * u + a1 * (lit 2 * N a - N u)
  E * u + b1 * N u + b2 * N a + b3 * N b

/-- Cox–Matthews ETDRK4, eq. (26)-(29) -/
def cm4 (E Eh ah b1 b2 b3 : V) (N : V → V) (u : V) : V :=
  let a := Eh * u + ah * N u
  let b := Eh * u + ah * N a
  let c := Eh * a + ah * (lit 2 * N b - N u)
  E * u + b1 * N u + lit 2 * b2 * (N a + N b) + b3 * N c
end

end Exponax.Spec
