import ExponaxModel.Model.Ops
import ExponaxModel.Model.Layout
import ExponaxModel.Model.Transform
/-
Code-mirror of `exponax/_interpolation.py`: `FourierInterpolator` and
`map_between_resolutions` (wavenumber-preserving block copy between two half
spectra, norm compensation, optional Nyquist ("oddball") removal).
-/
namespace Exponax.Interp
open Exponax.Layout Exponax.Transform

/-- source index on one axis for the block copy `new[block] = old[block]`, where the blocks are the
    slices of `get_modes_slices(D, m)`, `m = min(N_old, N_new)`, resolved on an axis of length `lenNew`
    (target) and `lenOld` (source).  `none`: the target entry is not written (stays zero). -/
def srcAxis (m lenNew lenOld : Nat) (isLast : Bool) (i : Nat) : Option Nat :=
  let nyq := m / 2
  if isLast then
    let r := pySlice lenNew none (some ((nyq : Int) + 1))
    if i < r.2 then some i else none
  else
    let left := pySlice lenNew none (some (if m % 2 = 0 then (nyq : Int) else (nyq : Int) + 1))
    let right := pySlice lenNew (some (-(nyq : Int))) none
    let rightOld := pySlice lenOld (some (-(nyq : Int))) none
    -- later blocks overwrite earlier ones: the right slice is written after the left one
    if right.1 ≤ i ∧ i < right.2 then some (rightOld.1 + (i - right.1))
    else if i < left.2 then some i else none

/-- source multi-index (in the old half spectrum) of target multi-index `h'` -/
def srcIndex (D Nold Nnew : Nat) (h' : List Nat) : Option (List Nat) :=
  let m := min Nold Nnew
  let shpN := wavenumberShape D Nnew
  let shpO := wavenumberShape D Nold
  (List.range D).foldr (fun d acc =>
    match acc, srcAxis m (shpN.getD d 0) (shpO.getD d 0) (d + 1 == D) (h'.getD d 0) with
    | some l, some i => some (i :: l)
    | _, _ => none) (some [])

section
variable {K : Type} [Add K] [Sub K] [Mul K] [Div K] [Neg K] [Zero K] [One K] [NatCast K] [IntCast K]
  [HasExp K] [HasI K] [HasPi K] [HasRe K]

/-- the new half spectrum of `map_between_resolutions` (before the inverse transform) -/
def mapSpectrum (D Nold Nnew : Nat) (oddballZero : Bool) (uh : Array K) : Array K :=
  let Mn := numModes D Nnew
  let old : Array K := tab (numModes D Nold) (fun h =>
    let v := uh.getD h 0 / scaling D Nold 0 (unflatten (wavenumberShape D Nold) h)
    if Nnew > Nold ∧ Nold % 2 = 0 ∧ oddballZero then
      (if oddball Nold (wnFlat D Nold h) then v else 0) else v)
  tab Mn (fun h' =>
    let idx' := unflatten (wavenumberShape D Nnew) h'
    let v : K := match srcIndex D Nold Nnew idx' with
      | some idx => old.getD (flatten (wavenumberShape D Nold) idx) 0
      | none => 0
    let v := v * scaling D Nnew 0 idx'
    if Nold > Nnew ∧ Nnew % 2 = 0 ∧ oddballZero then
      (if oddball Nnew (wnFlat D Nnew h') then v else 0) else v)

/-- `map_between_resolutions` on one channel -/
def mapBetween (D Nold Nnew : Nat) (oddballZero : Bool) (u : Array K) : Array K :=
  if Nold = Nnew then u
  else irfftnM D Nnew (mapSpectrum D Nold Nnew oddballZero (rfftnM D Nold u))

/-- `FourierInterpolator.__call__` on one channel at the query point `x` (`s = 2π/L`):
    `Re Σ_h (û_h / recon_h) · exp(i s k_h·x)` -/
def interpolate (D N : Nat) (s : K) (u : Array K) (x : List K) : K :=
  let uh := rfftnM D N u
  HasRe.re (sumRange (numModes D N) (fun h =>
    let idx := unflatten (wavenumberShape D N) h
    let k := wnFlat D N h
    let ph := sumList ((List.range D).map (fun d => HasI.I * (s * (IntCast.intCast (k.getD d 0) : K)) * x.getD d 0))
    uh.getD h 0 / scaling D N 1 idx * HasExp.exp ph))

end
end Exponax.Interp
