import ExponaxModel.Model.Ops
import ExponaxModel.Model.Layout
import ExponaxModel.Model.Transform
/-
Code-mirror of `exponax/metrics/_spatial.py`, `_fourier.py`, `_correlation.py`
on one channel / per-channel lists.  Values are real; the Fourier aggregator is
written on the magnitudes `|û_h|` of the stored half spectrum.
-/
namespace Exponax.Metrics
open Exponax.Layout Exponax.Transform

section
variable {R : Type} [Add R] [Sub R] [Mul R] [Div R] [Neg R] [Zero R] [One R] [NatCast R] [IntCast R]
  [HasRpow R] [HasAbs R] [HasLtB R] [HasSqrt R]

/-- `spatial_aggregator`: `((L/N)^D · Σ |u|^p)^q` -/
def spatialAggregator (D N : Nat) (L p q : R) (u : Array R) : R :=
  HasRpow.rpow (npow (L / lit N) D * sumList (u.toList.map (fun x => HasRpow.rpow (HasAbs.abs x) p))) q

/-- band mask of `fourier_aggregator`: `¬(|k|_∞ ≤ low − 1) ∧ (|k|_∞ ≤ high)` (axis-separate low-pass masks) -/
def bandMask (k : List Int) (low high : Nat) : Bool :=
  !(lowPassSep k ((low : Int) - 1) 1) && lowPassSep k (high : Int) 1

/-- `fourier_aggregator` on the magnitudes `mag h = |û_h|`:
    floor 1e-5, optional band `[low, high]`, optional derivative order `m` (one term per axis,
    factor `(s·|k_d|)^m`), weights `1/reconstruction scaling`, scale `(L/N)^D`, exponents `p`, `q` -/
def fourierAggregator (D N : Nat) (L s p q : R) (band : Option (Nat × Nat)) (deriv : Option R)
    (floor : R) (mag : Array R) : R :=
  let M := numModes D N
  let kept : Array R := tab M (fun h =>
    let a := mag.getD h 0
    let a := if HasLtB.ltb a floor then 0 else a
    match band with
    | none => a
    | some (lo, hi) => if bandMask (wnFlat D N h) lo hi then a else 0)
  let scale := npow (L / lit N) D
  let agg (f : Nat → R) : R :=
    HasRpow.rpow (scale * sumRange M (fun h =>
      HasRpow.rpow (f h) p / scaling D N 1 (unflatten (wavenumberShape D N) h))) q
  match deriv with
  | none => agg (fun h => kept.getD h 0)
  | some m => sumList ((List.range D).map (fun d =>
      agg (fun h =>
        let kd : R := HasAbs.abs (s * (IntCast.intCast ((wnFlat D N h).getD d 0) : R))
        kept.getD h 0 * (if (wnFlat D N h).getD d 0 == 0 then 0 else HasRpow.rpow kd m))))

/-- `spatial_norm` / `fourier_norm` combination over channels: mode 0 absolute, 1 normalized, 2 symmetric.
    `dn`, `rn`, `sn` are the per-channel aggregates of the difference, the reference and the state -/
def combine (mode : Nat) (dn rn sn : List R) : R :=
  sumList ((List.range dn.length).map (fun c =>
    let d := dn.getD c 0
    if mode = 1 then d / rn.getD c 0
    else if mode = 2 then lit 2 * d / (sn.getD c 0 + rn.getD c 0)
    else d))

/-- `correlation` of one channel pair: `⟨u, v⟩ / (‖u‖ ‖v‖)` with the spatial aggregators -/
def correlationChannel (D N : Nat) (L : R) (u v : Array R) : R :=
  let scale := npow (L / lit N) D
  let inner := scale * sumRange (N ^ D) (fun j => u.getD j 0 * v.getD j 0)
  inner / (spatialAggregator D N L (lit 2) (qlit 1 2) u * spatialAggregator D N L (lit 2) (qlit 1 2) v)

end
end Exponax.Metrics
