import ExponaxModel.Model.Ops
/-
Code-mirror of `exponax/stepper/_wave.py` per Fourier mode: forward transform to
the diagonalised variables, ETDRK0 with `±i·c·|κ|`, inverse transform, and the
DC drift `ĥ₀ += dt·v̂₀`.  `kn = |κ| = (2π/L)·|k|₂ ≥ 0` is the stored
`wavenumber_norm` of the mode, `isDC` says whether the mode is the index (0,…,0).
-/
namespace Exponax.Wave

section
variable {K : Type} [Add K] [Sub K] [Mul K] [Div K] [Neg K] [Zero K] [One K] [NatCast K]
  [HasExp K] [HasI K] [HasSqrt K] [HasIsZero K]

/-- `jnp.where(wavenumber_norm == 0, 1.0, wavenumber_norm)` -/
def kGuard (kn : K) : K := if HasIsZero.isZero kn then 1 else kn

/-- `_forward_transform` -/
def forward (c kn h v : K) : K × K :=
  let w := HasI.I * c * kGuard kn * h
  (1 / HasSqrt.sqrt (lit 2) * (w + v), 1 / HasSqrt.sqrt (lit 2) * (w - v))

/-- `_inverse_transform` -/
def inverse (c kn pos neg : K) : K × K :=
  let w := 1 / HasSqrt.sqrt (lit 2) * (pos + neg)
  let v := 1 / HasSqrt.sqrt (lit 2) * (pos - neg)
  (w / (HasI.I * c * kGuard kn), v)

/-- the two entries of `_build_linear_operator` -/
def symbols (c kn : K) : K × K :=
  let val := HasI.I * c * kn
  (val, -val)

/-- `Wave.step_fourier` at one mode -/
def stepMode (c dt kn : K) (isDC : Bool) (h v : K) : K × K :=
  let w := forward c kn h v
  let lam := symbols c kn
  let pos' := HasExp.exp (dt * lam.1) * w.1
  let neg' := HasExp.exp (dt * lam.2) * w.2
  let out := inverse c kn pos' neg'
  if isDC then (out.1 + dt * v, out.2) else out

end
end Exponax.Wave
