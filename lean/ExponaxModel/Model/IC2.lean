import ExponaxModel.Model.Ops
import ExponaxModel.Model.Layout
import ExponaxModel.Model.Transform
import ExponaxModel.Model.IC
/-
Documented behaviour of the remaining initial-condition generators of `exponax/ic` (Gaussian random field, diffused
noise, discontinuities, sine waves, Gaussian blobs, multi-channel wrappers), written from their docstrings.  The
random draws are inputs.  A grid (`make_grid`, shape `(D, N, …, N)`) is a list of `D` flat C-order arrays, one per
coordinate; a one-channel field (`(1, N, …, N)`) is one flat array.  Mathlib-free.

`Generated/ICGen2.lean` (regenerated from the Python source by `harness/translate_ic2.py`) is proved equal to these
definitions in `Proofs/ICGen2Eq.lean`.
-/
namespace Exponax

/-- `jnp.sin` -/
class HasSin (K : Type) where sin : K → K

namespace IC2
open Exponax.Layout Exponax.Transform Exponax.IC

section
variable {K : Type} [Add K] [Sub K] [Mul K] [Div K] [Neg K] [Zero K] [One K] [NatCast K] [IntCast K]

/-! ### grids -/

/-- coordinate `d` of the grid point with flat index `j` -/
def coord (x : List (Array K)) (d j : Nat) : K := (x.getD d #[]).getD j 0

/-- number of grid points (length of the first coordinate array) -/
def gridPoints (x : List (Array K)) : Nat := (x.getD 0 #[]).size

/-- the documented grid of `make_grid(D, L, N)` (`indexing="ij"`): coordinate `d` of the point with multi-index
    `(j₀, …, j_{D-1})` is `j_d · L / N` -/
def grid (D : Nat) (L : K) (N : Nat) : List (Array K) :=
  (List.range D).map (fun d => tab (N ^ D) (fun j => gridCoord L N false ((unflatten (spatialShape D N) j).getD d 0)))

/-- pointwise sum of one-channel fields on `n` grid points -/
def sumOfFields (n : Nat) (fs : List (Array K)) : Array K :=
  tab n (fun j => sumList (fs.map (fun f => f.getD j 0)))

/-- pointwise mean of one-channel fields on `n` grid points -/
def meanOfFields (n : Nat) (fs : List (Array K)) : Array K :=
  tab n (fun j => sumList (fs.map (fun f => f.getD j 0)) / lit fs.length)

/-! ### `GaussianRandomField`: white noise whose spectrum is multiplied by `|k|^(−exponent/2)` (power spectrum
`∝ |k|^(−exponent)`), the mean mode (flat index 0) is left as it is -/

/-- the scaled wavenumber `2π/L · k` -/
def scaledWn [HasPi K] (L : K) (k : Int) : K := (lit 2 * HasPi.pi / L) * (IntCast.intCast k : K)

/-- `‖2π/L · k(h)‖₂` of the stored mode `h` -/
def wnNorm [HasPi K] [HasSqrt K] (D N : Nat) (L : K) (h : Nat) : K :=
  HasSqrt.sqrt (sumList ((wnFlat D N h).map (fun k => scaledWn L k * scaledWn L k)))

/-- the amplitude the noise spectrum is multiplied with -/
def powerLawAmplitude [HasPi K] [HasSqrt K] [HasRpow K] (D N : Nat) (L e : K) (h : Nat) : K :=
  if h = 0 then lit 1 else HasRpow.rpow (wnNorm D N L h) (-e / lit 2)

/-- the spectrum handed to the inverse transform -/
def grfSpectrum [HasExp K] [HasI K] [HasPi K] [HasSqrt K] [HasRpow K] (D N : Nat) (L e : K) (noise : Array K) :
    Array K :=
  tab (numModes D N) (fun h => (rfftnM D N noise).getD h 0 * powerLawAmplitude D N L e h)

/-- `GaussianRandomField.__call__` after the draw of the white noise -/
def gaussianRandomField [HasExp K] [HasI K] [HasPi K] [HasRe K] [HasSqrt K] [HasRpow K] [HasAbs K] [HasLtB K]
    (D N : Nat) (L e : K) (zeroMean stdOne maxOne : Bool) (noise : Array K) : Array K :=
  normalizeIc zeroMean stdOne maxOne (irfftnM D N (grfSpectrum D N L e noise))

/-! ### `DiffusedNoise`: white noise after one step (`dt = 1`) of the diffusion equation with diffusivity
`intensity`: the spectrum decays like `exp(−intensity · (2π/L)² |k|²)` -/

/-- the factor of the stored mode `h` -/
def diffusionKernel [HasExp K] [HasPi K] (D N : Nat) (L ν : K) (h : Nat) : K :=
  HasExp.exp (-(ν * ((lit 2 * HasPi.pi / L) * (lit 2 * HasPi.pi / L)) * (IntCast.intCast (normSq (wnFlat D N h)) : K)))

def diffusedSpectrum [HasExp K] [HasI K] [HasPi K] (D N : Nat) (L ν : K) (noise : Array K) : Array K :=
  tab (numModes D N) (fun h => diffusionKernel D N L ν h * (rfftnM D N noise).getD h 0)

/-- `DiffusedNoise.__call__` after the draw of the white noise -/
def diffusedNoise [HasExp K] [HasI K] [HasPi K] [HasRe K] [HasSqrt K] [HasAbs K] [HasLtB K]
    (D N : Nat) (L ν : K) (zeroMean stdOne maxOne : Bool) (noise : Array K) : Array K :=
  normalizeIc zeroMean stdOne maxOne (irfftnM D N (diffusedSpectrum D N L ν noise))

/-! ### discontinuities -/

/-- is the grid point `j` strictly inside the box `∏_d (lo_d, hi_d)` (one condition per listed axis) -/
def inBox [HasLtB K] (lo hi : List K) (x : List (Array K)) (j : Nat) : Bool :=
  (List.zipIdx (List.zip lo hi)).all (fun p => HasLtB.ltb p.1.1 (coord x p.2 j) && HasLtB.ltb (coord x p.2 j) p.1.2)

/-- `Discontinuity.__call__`: `value` inside the box, `0` outside -/
def discontinuity [HasLtB K] (lo hi : List K) (value : K) (x : List (Array K)) : Array K :=
  tab (gridPoints x) (fun j => if inBox lo hi x j then value else lit 0)

/-- `Discontinuities.__call__` on the fields of its blocks: their sum, normalised -/
def discontinuities [HasSqrt K] [HasAbs K] [HasLtB K] (zeroMean stdOne maxOne : Bool) (n : Nat)
    (blocks : List (Array K)) : Array K :=
  normalizeIc zeroMean stdOne maxOne (sumOfFields n blocks)

/-! ### sine waves (one spatial dimension) -/

/-- `Σ_i a_i sin(k_i · 2π/L · x_j + φ_i) + offset` -/
def sineSum [HasSin K] [HasPi K] (L : K) (amps wns phases : List K) (offset : K) (x : Array K) : Array K :=
  tab x.size (fun j =>
    sumList ((List.zip amps (List.zip wns phases)).map
      (fun t => t.1 * HasSin.sin (t.2.1 * (lit 2 * HasPi.pi / L) * x.getD j 0 + t.2.2))) + offset)

/-- `SineWaves1d.__call__` (there is no `zero_mean` option) -/
def sineWaves1d [HasSin K] [HasPi K] [HasSqrt K] [HasAbs K] [HasLtB K] (L : K) (amps wns phases : List K)
    (offset : K) (stdOne maxOne : Bool) (x : Array K) : Array K :=
  normalizeIc false stdOne maxOne (sineSum L amps wns phases offset x)

/-! ### Gaussian blobs -/

/-- `Σ_i Σ_j d_i M_ij d_j` -/
def quadForm (d : List K) (M : List (List K)) : K :=
  sumList (List.zipWith (fun a row => sumList (List.zipWith (fun m b => a * m * b) row d)) d M)

/-- `GaussianBlob.__call__`: `exp(−½ (x − p)ᵀ Σ⁻¹ (x − p))`, or one minus it -/
def gaussianBlob [HasExp K] (pos : List K) (covInv : List (List K)) (oneComplement : Bool) (x : List (Array K)) :
    Array K :=
  tab (gridPoints x) (fun j =>
    let b := HasExp.exp (-(qlit 1 2) * quadForm (List.zipWith (fun a p => a.getD j 0 - p) x pos) covInv)
    if oneComplement then lit 1 - b else b)

end
end IC2
end Exponax
