import ExponaxModel.Model.Ops
/-
Executable scalar: complex numbers over IEEE binary64 — the arithmetic numpy/JAX
(x64) use. Only the driver uses this file.
-/
namespace Exponax

structure CF where
  re : Float
  im : Float
deriving Inhabited

namespace CF
def ofFloat (x : Float) : CF := ⟨x, 0.0⟩
def add (a b : CF) : CF := ⟨a.re + b.re, a.im + b.im⟩
def sub (a b : CF) : CF := ⟨a.re - b.re, a.im - b.im⟩
def neg (a : CF) : CF := ⟨-a.re, -a.im⟩
def mul (a b : CF) : CF := ⟨a.re * b.re - a.im * b.im, a.re * b.im + a.im * b.re⟩
/-- Smith's algorithm, as in numpy -/
def div (a b : CF) : CF :=
  if b.im == 0.0 then ⟨a.re / b.re, a.im / b.re⟩
  else if b.re.abs >= b.im.abs then
    let r := b.im / b.re
    let d := b.re + b.im * r
    ⟨(a.re + a.im * r) / d, (a.im - a.re * r) / d⟩
  else
    let r := b.re / b.im
    let d := b.re * r + b.im
    ⟨(a.re * r + a.im) / d, (a.im * r - a.re) / d⟩
def cexp (a : CF) : CF :=
  let e := Float.exp a.re
  if a.im == 0.0 then ⟨e, 0.0⟩ else ⟨e * Float.cos a.im, e * Float.sin a.im⟩
def cabs (a : CF) : Float := Float.sqrt (a.re * a.re + a.im * a.im)
/-- principal square root -/
def csqrt (a : CF) : CF :=
  if a.im == 0.0 then
    if a.re >= 0.0 then ⟨Float.sqrt a.re, 0.0⟩ else ⟨0.0, Float.sqrt (-a.re)⟩
  else
    let m := cabs a
    let s := Float.sqrt ((m + a.re) / 2.0)
    let t := Float.sqrt ((m - a.re) / 2.0)
    ⟨s, if a.im < 0.0 then -t else t⟩

instance : Add CF := ⟨add⟩
instance : Sub CF := ⟨sub⟩
instance : Neg CF := ⟨neg⟩
instance : Mul CF := ⟨mul⟩
instance : Div CF := ⟨div⟩
instance : Zero CF := ⟨⟨0.0, 0.0⟩⟩
instance : One CF := ⟨⟨1.0, 0.0⟩⟩
instance : NatCast CF := ⟨fun n => ⟨Float.ofNat n, 0.0⟩⟩
instance : IntCast CF := ⟨fun n => ⟨Float.ofInt n, 0.0⟩⟩
instance : HasExp CF := ⟨cexp⟩
instance : HasRe CF := ⟨fun a => ⟨a.re, 0.0⟩⟩
instance : HasIm CF := ⟨fun a => ⟨a.im, 0.0⟩⟩
instance : HasConj CF := ⟨fun a => ⟨a.re, -a.im⟩⟩
instance : HasSqrt CF := ⟨csqrt⟩
instance : HasAbs CF := ⟨fun a => ⟨cabs a, 0.0⟩⟩
instance : HasI CF := ⟨⟨0.0, 1.0⟩⟩
instance : HasPi CF := ⟨⟨3.141592653589793, 0.0⟩⟩
instance : HasIsZero CF := ⟨fun a => a.re == 0.0 && a.im == 0.0⟩
instance : HasRpow CF := ⟨fun a b => ⟨Float.pow a.re b.re, 0.0⟩⟩
instance : HasLtB CF := ⟨fun a b => a.re < b.re⟩
end CF

end Exponax
