import ExponaxModel.Model.Guards
/-
Decision logic of the input / configuration guards (C20), part 2: the documented accept / reject
behaviour of the guards that `Model/Guards.lean` does not cover.  Hand-written from the docstrings
(argument descriptions, jaxtyping shape annotations, `!!! info` / `!!! warning` blocks) — the
regenerated predicates of `Generated/GuardsGen.lean` are proved equal to these in
`Proofs/GuardsGenEq.lean`.  Mathlib-free.
-/
namespace Exponax.Guards
open Exponax.Layout

/-! ### `BaseStepper.__init__` -/

/-- "`order`: The order of the ETDRK method to use. Must be one of {0, 1, 2, 3, 4}." -/
def etdrkOrderOk (order : Nat) : Bool := decide (order ≤ 4)

/-- the linear operator built by a subclass is either shared by all channels, shape
    `(1, …, N//2+1)`, or given per channel, shape `(C, …, N//2+1)` -/
def linopShapeOk (C D N : Nat) (shape : List Nat) : Bool :=
  match shape with
  | [] => false
  | c :: rest => (c == 1 || c == C) && rest == wavenumberShape D N

/-- a stepper can be constructed -/
def stepperInitOk (C D N : Nat) (linopShape : List Nat) (order : Nat) : Bool :=
  linopShapeOk C D N linopShape && etdrkOrderOk order

/-! ### `_spectral.py` -/

/-- `build_scaling_array`: "`mode`: … one of `norm_compensation`, `reconstruction`, `coef_extraction`" -/
def scalingModeOk (mode : String) : Bool :=
  ["norm_compensation", "reconstruction", "coef_extraction"].contains mode

/-- `ifft`: "The number of points … must be provided if the number of spatial dimensions is 1.
    Otherwise, it can be inferred from the shape of the field."; `num_spatial_dims` defaults to
    the number of axes minus the channel axis.  `ndim` = number of axes of `field_hat`. -/
def ifftArgsOk (ndim : Nat) (D N : Option Nat) : Bool :=
  match N with
  | some _ => true
  | none => decide (2 ≤ (match D with | some d => d | none => ndim - 1))

/-- `make_incompressible`: the field has shape `(D, N, …, N)` with `D` spatial axes: as many
    channels as spatial axes (a 0-axis array has no channel axis: rejected) -/
def incompressibleShapeOk : List Nat → Bool
  | [] => false
  | c :: sp => c == sp.length

/-- the leading (channel / dimension) axis of an array must exist and have the given length -/
def leadingAxisOk (need : Nat) : List Nat → Bool
  | [] => false
  | c :: _ => c == need

/-- `build_gradient_inner_product_operator`: odd order, velocity of shape `(D,)` where `D` is the
    leading axis of the derivative operator -/
def gradInnerOk (order : Nat) (velocityShape derivShape : List Nat) : Bool :=
  match derivShape with
  | [] => false
  | D :: _ => gradInnerOrderOk order && velocityShapeOk D velocityShape

/-! ### `_utils.py` -/

/-- `stack_sub_trajectories` on a pytree ("`trj`: … Expected shape: `(n_timesteps, ...)`"): every
    leaf has a leading time axis, all of the same length `T`, and the window fits: `sub_len ≤ T` -/
def windowTreeOk (leafShapes : List (List Nat)) (subLen : Nat) : Bool :=
  match leafShapes with
  | [] => false
  | [] :: _ => false
  | (T :: _) :: rest => rest.all (fun s => s.head? == some T) && windowOk T subLen

/-! ### `ic/` -/

/-- `GaussianBlob.__call__`: the grid `x` of shape `(D, …)` must have as many coordinate channels as the
    blob position has entries -/
def gaussianBlobOk (xShape positionShape : List Nat) : Bool :=
  match xShape, positionShape with
  | d :: _, p :: _ => d == p
  | _, _ => false

/-- `SineWaves1d.__init__`: the normalisation options as for the other generators (a non-zero offset
    plays the role of `zero_mean = False`), and one amplitude, wavenumber and phase per mode -/
def sineWavesOk (offsetZero stdOne maxOne : Bool) (nAmp nWav nPha : Nat) : Bool :=
  icNormOk offsetZero stdOne maxOne && (nAmp == nWav && nWav == nPha)

/-- `RandomSineWaves1d.__init__`: 1-D only, and the normalisation options -/
def randomSineWavesOk (D : Nat) (offsetZero stdOne maxOne : Bool) : Bool :=
  dimOk (some 1) D && icNormOk offsetZero stdOne maxOne

/-! ### `metrics/` -/

/-- the documented modes of `spatial_norm` in the encoding of `metricModeOk` -/
def metricModeName : Nat → String
  | 0 => "absolute"
  | 1 => "normalized"
  | _ => "symmetric"

/-! ### `nonlin_fun/` -/

/-- `BaseNonlinearFun.dealias` needs the mask that is only built for a dealiasing fraction -/
def dealiasOk (hasMask : Bool) : Bool := hasMask

/-! ### `viz/` : number of axes of the plotted array -/

/-- the array must have exactly `k` axes -/
def ndimOk (k : Nat) (shape : List Nat) : Bool := shape.length == k

/-- facet plots: `k` axes when faceting over the channels (`facet_over_channels=True`), one more
    (a leading batch axis) otherwise -/
def facetNdimOk (k : Nat) (facetOverChannels : Bool) (shape : List Nat) : Bool :=
  shape.length == (if facetOverChannels then k else k + 1)

/-- `zigzag_alpha`: "cmap must be either a ListedColormap or a LinearSegmentedColormap" -/
def cmapFormOk (isListed isSegmented : Bool) : Bool := isListed || isSegmented

end Exponax.Guards
