import ExponaxModel.Model.Ops
import ExponaxModel.Model.Layout
import ExponaxModel.Model.Transform
/-
Code-mirror of `get_spectrum` (exponax/_spectral.py): per-mode amplitude / power
with the reconstruction and norm-compensation scalings, then radial binning
(`sum` or `average`) into bins `0 … N/2`.
-/
namespace Exponax.Spectrum
open Exponax.Layout Exponax.Transform

section
variable {K : Type} [Add K] [Sub K] [Mul K] [Div K] [Neg K] [Zero K] [One K] [NatCast K] [IntCast K]
  [HasExp K] [HasI K] [HasPi K] [HasRe K] [HasAbs K]

/-- per-mode quantity that is binned -/
def quantity (D N : Nat) (power : Bool) (uh : Array K) (h : Nat) : K :=
  let idx := unflatten (wavenumberShape D N) h
  let a := HasAbs.abs (uh.getD h 0)
  let magnitude := a / scaling D N 1 idx
  if power then qlit 1 2 * magnitude * (a / scaling D N 0 idx) else magnitude

/-- `get_spectrum(state, power, radial_binning)` for one channel (`u` real field, flat) -/
def spectrum (D N : Nat) (power average : Bool) (u : Array K) : Array K :=
  let uh := rfftnM D N u
  let M := numModes D N
  let q : Array K := tab M (quantity D N power uh)
  if D = 1 then q
  else
    let ks : Array (List Int) := tab M (wnFlat D N)
    tab (N / 2 + 1) (fun b =>
      let sel := (List.range M).filter (fun h => inBin (ks.getD h []) b)
      let s := sumList (sel.map (fun h => q.getD h 0))
      if average then s / lit sel.length else s)

end
end Exponax.Spectrum
