import ExponaxModel.Model.Ops
import ExponaxModel.Model.Layout
/-
Mirror of `jnp.fft.rfftn` / `jnp.fft.irfftn` over the spatial axes as the DFT
sums they compute (DESIGN §4-B3).  Fields are arrays in C order (`tab n f` is
the array `[f 0, …, f (n-1)]`); every stage is a concrete array so that the
compiled driver shares work.
-/
namespace Exponax.Transform
open Exponax.Layout

/-- the array `[f 0, …, f (n-1)]` -/
def tab {α : Type} (n : Nat) (f : Nat → α) : Array α := (Array.range n).map f

section
variable {K : Type} [Add K] [Sub K] [Mul K] [Div K] [Neg K] [Zero K] [One K] [NatCast K] [IntCast K]
  [HasExp K] [HasI K] [HasPi K] [HasRe K]

/-- `exp(-2πi·m/N)`, phase reduced mod `N` -/
def twiddle (N : Nat) (m : Int) : K :=
  HasExp.exp (-(lit 2 * HasPi.pi * HasI.I * (IntCast.intCast (Int.emod m (N : Int)) : K) / lit N))

/-- digit `d` (axis `d`) of the flat spatial index `j` on the `N^D` grid -/
def digit (D N : Nat) (j d : Nat) : Nat := (j / N ^ (D - 1 - d)) % N

/-- `k·j` for a wavenumber vector `k` and grid point `j` (flat) -/
def phaseK (D N : Nat) (k : List Int) (j : Nat) : Int :=
  ((List.range D).map (fun d => k.getD d 0 * (digit D N j d : Int))).foldl (· + ·) 0

/-- `k(h)·j` for stored mode `h` (flat, half layout) and grid point `j` (flat) -/
def phase (D N : Nat) (h j : Nat) : Int := phaseK D N (wnFlat D N h) j

/-- `rfftn` of one channel: `û_h = Σ_j u_j e^{-2πi k(h)·j/N}` -/
def rfftnM (D N : Nat) (u : Array K) : Array K :=
  let tw : Array K := tab N (fun m => twiddle N (m : Int))
  tab (numModes D N) (fun h =>
    let k := wnFlat D N h
    sumRange (N ^ D) (fun j => u.getD j 0 * tw.getD (Int.emod (phaseK D N k j) (N : Int)).toNat 0))

/-- weight of a stored mode in the c2r transform: 1 on the last-axis DC / Nyquist columns, else 2 -/
def herm_weight (D N : Nat) (h : Nat) : Nat :=
  let l := (unflatten (wavenumberShape D N) h).getD (D - 1) 0
  if l = 0 ∨ (N % 2 = 0 ∧ l = N / 2) then 1 else 2

/-- `irfftn` of one channel (valid for non-Hermitian input too):
    `u_j = N^{-D} Σ_h w_h Re(c_h e^{+2πi k(h)·j/N})` -/
def irfftnM (D N : Nat) (c : Array K) : Array K :=
  let tw : Array K := tab N (fun m => twiddle N (-(m : Int)))
  let ks : Array (List Int) := tab (numModes D N) (wnFlat D N)
  let ws : Array Nat := tab (numModes D N) (herm_weight D N)
  tab (N ^ D) (fun j =>
    sumRange (numModes D N) (fun h =>
      lit (ws.getD h 0) * HasRe.re (c.getD h 0 * tw.getD (Int.emod (phaseK D N (ks.getD h []) j) (N : Int)).toNat 0))
      / lit (N ^ D))

end
end Exponax.Transform
