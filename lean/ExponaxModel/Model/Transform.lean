import ExponaxModel.Model.Ops
import ExponaxModel.Model.Layout
/-
Mirror of `jnp.fft.rfftn` / `jnp.fft.irfftn` over the spatial axes as the DFT
sums they compute (DESIGN §4-B3).  Fields are functions of the C-order flat
index; `memoN` tabulates a stage so that execution is not exponential (it is
the identity on the index range, lemma `memoN_apply`).
-/
namespace Exponax.Transform
open Exponax.Layout

/-- tabulate `f` on `0..n-1` (identity there; `dflt` outside) -/
def memoD {α : Type} (dflt : α) (n : Nat) (f : Nat → α) : Nat → α :=
  let a := (Array.range n).map f
  fun i => a.getD i dflt

def memoN {K : Type} [Zero K] (n : Nat) (f : Nat → K) : Nat → K := memoD 0 n f

section
variable {K : Type} [Add K] [Sub K] [Mul K] [Div K] [Neg K] [Zero K] [One K] [NatCast K] [IntCast K]
  [HasExp K] [HasI K] [HasPi K] [HasRe K]

/-- `exp(-2πi·m/N)`, phase reduced mod `N` -/
def twiddle (N : Nat) (m : Int) : K :=
  HasExp.exp (-(lit 2 * HasPi.pi * HasI.I * (IntCast.intCast (Int.emod m (N : Int)) : K) / lit N))

/-- digit `d` (axis `d`) of the flat spatial index `j` on the `N^D` grid -/
def digit (D N : Nat) (j d : Nat) : Nat := (j / N ^ (D - 1 - d)) % N

/-- `k·j` for stored mode `h` (flat, half layout) and grid point `j` (flat) -/
def phase (D N : Nat) (h j : Nat) : Int :=
  let hv := unflatten (wavenumberShape D N) h
  ((List.range D).map (fun d => wn D N hv d * (digit D N j d : Int))).foldl (· + ·) 0

/-- `rfftn` of one channel: `û_h = Σ_j u_j e^{-2πi k(h)·j/N}` -/
def rfftnM (D N : Nat) (u : Nat → K) : Nat → K :=
  let tab := memoN N (fun m => twiddle N (m : Int))
  let ph := memoD (0 : Int) (numModes D N * N ^ D) (fun t => Int.emod (phase D N (t / N ^ D) (t % N ^ D)) (N : Int))
  memoN (numModes D N) (fun h =>
    sumRange (N ^ D) (fun j => u j * tab ((ph (h * N ^ D + j)).toNat)))

/-- weight of a stored mode in the c2r transform: 1 on the last-axis DC / Nyquist columns, else 2 -/
def herm_weight (D N : Nat) (h : Nat) : Nat :=
  let l := (unflatten (wavenumberShape D N) h).getD (D - 1) 0
  if l = 0 ∨ (N % 2 = 0 ∧ l = N / 2) then 1 else 2

/-- `irfftn` of one channel (valid for non-Hermitian input too):
    `u_j = N^{-D} Σ_h w_h Re(c_h e^{+2πi k(h)·j/N})` -/
def irfftnM (D N : Nat) (c : Nat → K) : Nat → K :=
  let tab := memoN N (fun m => twiddle N (-(m : Int)))
  let ph := memoD (0 : Int) (numModes D N * N ^ D) (fun t => Int.emod (phase D N (t / N ^ D) (t % N ^ D)) (N : Int))
  memoN (N ^ D) (fun j =>
    sumRange (numModes D N) (fun h =>
      lit (herm_weight D N h) * HasRe.re (c h * tab ((ph (h * N ^ D + j)).toNat))) / lit (N ^ D))

end
end Exponax.Transform
