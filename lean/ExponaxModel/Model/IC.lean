import ExponaxModel.Model.Ops
import ExponaxModel.Model.Layout
import ExponaxModel.Model.Transform
/-
Code-mirror of the deterministic post-processing of the initial-condition
generators (`exponax/ic/*.py`); the random draws are inputs.
-/
namespace Exponax.IC
open Exponax.Layout Exponax.Transform

section
variable {K : Type} [Add K] [Sub K] [Mul K] [Div K] [Neg K] [Zero K] [One K] [NatCast K] [IntCast K]
  [HasSqrt K] [HasAbs K] [HasLtB K]

def mean (u : Array K) : K := sumList u.toList / lit u.size

/-- `jnp.std` (population standard deviation) -/
def std (u : Array K) : K :=
  let m := mean u
  HasSqrt.sqrt (sumList (u.toList.map (fun x => (x - m) * (x - m))) / lit u.size)

/-- `jnp.max(jnp.abs(u))` -/
def maxAbs (u : Array K) : K :=
  u.toList.foldl (fun acc x => let a := HasAbs.abs x; if HasLtB.ltb acc a then a else acc) 0

/-- `normalize_ic` -/
def normalizeIc (zeroMean stdOne maxOne : Bool) (u : Array K) : Array K :=
  let u1 := if zeroMean then (let m := mean u; u.map (fun x => x - m)) else u
  let u2 := if stdOne then (let sd := std u1; u1.map (fun x => x / sd)) else u1
  if maxOne then (let mx := maxAbs u2; u2.map (fun x => x / mx)) else u2

def minOf (u : Array K) : K :=
  u.toList.foldl (fun acc x => if HasLtB.ltb x acc then x else acc) (u.getD 0 0)
def maxOf (u : Array K) : K :=
  u.toList.foldl (fun acc x => if HasLtB.ltb acc x then x else acc) (u.getD 0 0)

/-- `ClampingICGenerator`: affine map onto `[lo, hi]` -/
def clamp (lo hi : K) (u : Array K) : Array K :=
  let mn := minOf u
  let mx := maxOf u
  u.map (fun x => (x - mn) / (mx - mn) * (hi - lo) + lo)

/-- `ScaledICGenerator` -/
def scale (a : K) (u : Array K) : Array K := u.map (fun x => a * x)

end

section
variable {K : Type} [Add K] [Sub K] [Mul K] [Div K] [Neg K] [Zero K] [One K] [NatCast K] [IntCast K]
  [HasExp K] [HasI K] [HasPi K] [HasRe K]

/-- `RandomTruncatedFourierSeries` pipeline after the draws: low-pass the white noise at `cutoff`, write the
    offset into the mean mode (`N^D · offset` in the unnormalised layout), transform back -/
def truncatedSeries (D N cutoff : Nat) (offset : K) (noise : Array K) : Array K :=
  let nh := rfftnM D N noise
  let M := numModes D N
  let filt : Array K := tab M (fun h =>
    if h = 0 then offset * lit (N ^ D)
    else if lowPassSep (wnFlat D N h) (cutoff : Int) 1 then nh.getD h 0 else 0)
  irfftnM D N filt

end
end Exponax.IC
