import ExponaxModel.Model.Ops
import ExponaxModel.Model.CF
/-
Executable "broadcasting vector": either a scalar (numeric literal inside a
vector formula) or an array; pointwise operations.  The vector-generic stage
formulas (`Gen.Etdrk.E?step`) are executed at `K := BVec` by the driver and
reasoned about at `K := ι → ℂ` in `Proofs/`.
-/
namespace Exponax

inductive BVec where
  | s : CF → BVec
  | v : Array CF → BVec
deriving Inhabited

namespace BVec
def lift2 (f : CF → CF → CF) : BVec → BVec → BVec
  | s a, s b => s (f a b)
  | s a, v b => v (b.map (fun x => f a x))
  | v a, s b => v (a.map (fun x => f x b))
  | v a, v b => v (Array.zipWith f a b)
def lift1 (f : CF → CF) : BVec → BVec
  | s a => s (f a)
  | v a => v (a.map f)
def toArray (n : Nat) : BVec → Array CF
  | s a => Array.replicate n a
  | v a => a
instance : Add BVec := ⟨lift2 (· + ·)⟩
instance : Sub BVec := ⟨lift2 (· - ·)⟩
instance : Mul BVec := ⟨lift2 (· * ·)⟩
instance : Div BVec := ⟨lift2 (· / ·)⟩
instance : Neg BVec := ⟨lift1 (- ·)⟩
instance : Zero BVec := ⟨s 0⟩
instance : One BVec := ⟨s 1⟩
instance : NatCast BVec := ⟨fun n => s (NatCast.natCast n)⟩
instance : IntCast BVec := ⟨fun n => s (IntCast.intCast n)⟩
end BVec

end Exponax
