/-
Operation-only type classes: the model is written once against these, executed
over `CF` (IEEE binary64 pairs) by the driver and reasoned about over `ℂ`, `ℝ`
or any field in `Proofs/`. No Mathlib here.
-/
namespace Exponax

class HasExp (K : Type) where exp : K → K
class HasRe (K : Type) where re : K → K          -- real part, embedded back into K
class HasIm (K : Type) where im : K → K          -- imaginary part, embedded back into K
class HasConj (K : Type) where conj : K → K
class HasSqrt (K : Type) where sqrt : K → K
class HasAbs (K : Type) where abs : K → K        -- modulus, embedded back into K
class HasI (K : Type) where I : K                -- imaginary unit
class HasPi (K : Type) where pi : K
class HasIsZero (K : Type) where isZero : K → Bool  -- mirrors `== 0` guards
class HasRpow (K : Type) where rpow : K → K → K    -- real power `x ** y` (x ≥ 0)
class HasLtB (K : Type) where ltb : K → K → Bool   -- `x < y` on real values

export HasExp (exp)

/-- numeric literal `n` in `K` -/
@[reducible] def lit {K : Type} [NatCast K] (n : Nat) : K := NatCast.natCast n

/-- rational literal `p/q` in `K` (Python float literals are rendered as exact rationals) -/
@[reducible] def qlit {K : Type} [NatCast K] [Div K] (p q : Nat) : K := lit p / lit q

/-- `x ** n` for a static natural exponent (jnp integer_pow = repeated multiplication) -/
def npow {K : Type} [Mul K] [One K] (x : K) : Nat → K
  | 0 => 1
  | n + 1 => npow x n * x

/-- integer literal -/
@[reducible] def ilit {K : Type} [NatCast K] [Neg K] (n : Int) : K :=
  match n with
  | Int.ofNat m => lit m
  | Int.negSucc m => - lit (m + 1)

/-- integer power with a possibly negative exponent (Python: `2 ** (j - 1)` is `0.5` at `j = 0`) -/
def zpowK {K : Type} [Mul K] [One K] [Div K] (x : K) : Int → K
  | Int.ofNat n => npow x n
  | Int.negSucc n => 1 / npow x (n + 1)

/-- `lax.scan` whose carry is updated as `carry + f x` -/
def foldAdd {K : Type} [Add K] (init : K) (f : K → K) (xs : List K) : K :=
  xs.foldl (fun a x => a + f x) init

def sumList {K : Type} [Add K] [Zero K] (l : List K) : K := l.foldl (· + ·) 0

def sumRange {K : Type} [Add K] [Zero K] (n : Nat) (f : Nat → K) : K :=
  sumList ((List.range n).map f)

end Exponax
