import ExponaxModel.Model.Ops
/-
Code-mirror of the integer / index logic of `exponax/_spectral.py` and
`exponax/_utils.py` (layout of the rfftn half spectrum, wavenumbers, masks,
scaling arrays, mode slices, radial bins, grids, shapes).  Mathlib-free, total,
computable; executed by the driver and compared *exactly* with the
implementation.
-/
namespace Exponax.Layout

/-- `jnp.fft.fftfreq(N, 1/N)[i]` -/
def fftfreq (N i : Nat) : Int :=
  if i ≤ (N - 1) / 2 then (i : Int) else (i : Int) - (N : Int)

/-- `jnp.fft.rfftfreq(N, 1/N)[i]`, `i ≤ N/2` -/
def rfftfreq (_N i : Nat) : Int := (i : Int)

/-- `spatial_shape` -/
def spatialShape (D N : Nat) : List Nat := List.replicate D N

/-- `wavenumber_shape` -/
def wavenumberShape (D N : Nat) : List Nat := List.replicate (D - 1) N ++ [N / 2 + 1]

def shapeSize (shape : List Nat) : Nat := shape.foldl (· * ·) 1

/-- C-order multi-index of a flat index -/
def unflatten : List Nat → Nat → List Nat
  | [], _ => []
  | _ :: rest, i =>
    let sz := shapeSize rest
    (i / sz) :: unflatten rest (i % sz)

/-- C-order flat index of a multi-index -/
def flatten : List Nat → List Nat → Nat
  | [], _ => 0
  | _ :: rest, idx => idx.headD 0 * shapeSize rest + flatten rest idx.tail

/-- wavenumber along axis `d` of the stored half-spectrum multi-index `h` (`indexing="ij"`) -/
def wn (D N : Nat) (h : List Nat) (d : Nat) : Int :=
  if d + 1 = D then rfftfreq N (h.getD d 0) else fftfreq N (h.getD d 0)

/-- all `D` wavenumbers of a stored index -/
def wnVec (D N : Nat) (h : List Nat) : List Int := (List.range D).map (wn D N h)

/-- number of stored modes -/
def numModes (D N : Nat) : Nat := shapeSize (wavenumberShape D N)

/-- wavenumber vector of the flat half-spectrum index -/
def wnFlat (D N : Nat) (i : Nat) : List Int := wnVec D N (unflatten (wavenumberShape D N) i)

/-- `|k| ≤ p/q` for an integer `k` and a rational cutoff `p/q`, `q > 0` -/
def absLe (k : Int) (p q : Int) : Bool := decide ((k.natAbs : Int) * q ≤ p)

/-- `low_pass_filter_mask(..., axis_separate=True)` at one stored mode; cutoff `p/q` -/
def lowPassSep (k : List Int) (p q : Int) : Bool := k.all (fun kd => absLe kd p q)

/-- `low_pass_filter_mask(..., axis_separate=False)`: `‖k‖₂ ≤ c` for an integer cutoff `c` -/
def lowPassSphere (k : List Int) (c : Int) : Bool :=
  decide (0 ≤ c) && decide ((k.map (fun kd => kd * kd)).foldl (· + ·) 0 ≤ c * c)

/-- `oddball_filter_mask` at one stored mode -/
def oddball (N : Nat) (k : List Int) : Bool :=
  if N % 2 = 1 then true
  else lowPassSep k ((((N / 2 + 1 : Nat) : Int) - 1) - 1) 1

/-- dealiasing cutoff `frac·(N//2+1−1) − 1` with `frac = fp/fq` as the rational `(p, q)` -/
def dealiasCutoff (N : Nat) (fp fq : Nat) : Int × Int :=
  ((fp : Int) * ((N / 2 : Nat) : Int) - (fq : Int), (fq : Int))

/-- the dealiasing mask of `BaseNonlinearFun` at one stored mode -/
def dealiasMask (N : Nat) (fp fq : Nat) (k : List Int) : Bool :=
  let c := dealiasCutoff N fp fq
  lowPassSep k c.1 c.2

/-- is this axis entry DC or Nyquist (the entries `_build_scaling_array` leaves at `N`) -/
def isSpecial (N : Nat) (isLast : Bool) (k : Int) : Bool :=
  k == 0 || (N % 2 == 0 && (if isLast then k == ((N / 2 : Nat) : Int) else k == Int.fdiv (-(N : Int)) 2))

/-- per-axis factor of `_build_scaling_array` -/
def axisScale {K : Type} [NatCast K] [Div K] (N : Nat) (denom : Nat) (isLast : Bool) (k : Int) : K :=
  if isSpecial N isLast k then lit N else lit N / lit denom

def prodList {K : Type} [Mul K] [One K] (l : List K) : K := l.foldl (· * ·) 1

/-- `build_scaling_array(mode)`: 0 = norm_compensation, 1 = reconstruction, 2 = coef_extraction -/
def scaling {K : Type} [NatCast K] [Div K] [Mul K] [One K] (D N : Nat) (mode : Nat) (h : List Nat) : K :=
  let lastDen := if mode = 0 then 1 else 2
  let otherDen := if mode = 2 then 2 else 1
  prodList ((List.range D).map (fun d =>
    let isLast := d + 1 == D
    axisScale N (if isLast then lastDen else otherDen) isLast (wn D N h d)))

/-- Python `slice(start, stop)` (step 1) resolved on an axis of length `len`: `[lo, hi)` -/
def pySlice (len : Nat) (start stop : Option Int) : Nat × Nat :=
  let clamp (x : Int) : Nat :=
    let y := if x < 0 then x + (len : Int) else x
    if y < 0 then 0 else if y > (len : Int) then len else y.toNat
  let lo := match start with | none => 0 | some s => clamp s
  let hi := match stop with | none => len | some s => clamp s
  (lo, hi)

/-- `get_modes_slices`: blocks, each a list of `(start, stop)` options per spatial axis, in the
    order the implementation returns them -/
def modeSlices (D N : Nat) : List (List (Option Int × Option Int)) :=
  let nyq : Int := ((N / 2 : Nat) : Int)
  let left : Option Int × Option Int := if N % 2 = 0 then (none, some nyq) else (none, some (nyq + 1))
  let right : Option Int × Option Int := (some (-nyq), none)
  let lastS : Option Int × Option Int := (none, some (nyq + 1))
  -- itertools.product([last], [l, r], …, [l, r]) then each tuple reversed
  let rec prod : Nat → List (List (Option Int × Option Int))
    | 0 => [[]]
    | n + 1 => (prod n).flatMap (fun p => [p ++ [left], p ++ [right]])
  (prod (D - 1)).map (fun p => (lastS :: p).reverse)

/-- resolved blocks on the wavenumber shape -/
def modeBlocks (D N : Nat) : List (List (Nat × Nat)) :=
  (modeSlices D N).map (fun b =>
    (List.zip b (wavenumberShape D N)).map (fun (s, len) => pySlice len s.1 s.2))

def inBlock (b : List (Nat × Nat)) (h : List Nat) : Bool :=
  (List.zip b h).all (fun (r, i) => r.1 ≤ i && i < r.2)

/-- squared Euclidean norm of an integer wavenumber vector -/
def normSq (k : List Int) : Int := (k.map (fun kd => kd * kd)).foldl (· + ·) 0

/-- `get_spectrum`: does the mode with wavenumber `k` fall into radial bin `b`
    (`b − ½ ≤ |k| < b + ½`)?  Integer form: `(2b−1)² ≤ 4|k|²` (automatic when `b = 0`)
    and `4|k|² < (2b+1)²`. -/
def inBin (k : List Int) (b : Nat) : Bool :=
  let m := 4 * normSq k
  let lo : Int := 2 * (b : Int) - 1
  let hi : Int := 2 * (b : Int) + 1
  (decide (lo ≤ 0) || decide (lo * lo ≤ m)) && decide (m < hi * hi)

/-- the bin a mode is documented to land in: `round(|k|)`, i.e. the unique `b` with
    `(2b−1)² < 4|k|² < (2b+1)²`; found by search up to `bound` -/
def binOf (k : List Int) (bound : Nat) : Option Nat :=
  (List.range (bound + 1)).find? (fun b => inBin k b)

/-- `make_grid` coordinate `j` of the 1-D grid as a rational `(num, den)` multiple of `L`:
    `x_j = j·L/N` (`full` adds the point `j = N`), minus `L/2` when zero-centred -/
def gridCoord {K : Type} [NatCast K] [Div K] [Mul K] [Sub K] (L : K) (N : Nat) (zeroCentered : Bool) (j : Nat) : K :=
  let x := lit j * L / lit N
  if zeroCentered then x - L / lit 2 else x

def gridLen (N : Nat) (full : Bool) : Nat := if full then N + 1 else N

/-- `wrap_bc`: source (flat index into the `N^D` state) of entry `i` (flat index into the padded
    `(N+1)^D` array): every padded coordinate `N` wraps to `0` -/
def wrapSource (D N : Nat) (i : Nat) : Nat :=
  let idx := unflatten (List.replicate D (N + 1)) i
  flatten (List.replicate D N) (idx.map (fun j => j % N))

/-- accept/reject decision of `BaseStepper.__call__` / `RepeatedStepper.__call__` / `Poisson.__call__` -/
def acceptsShape (C D N : Nat) (shape : List Nat) : Bool :=
  shape == C :: spatialShape D N

end Exponax.Layout
