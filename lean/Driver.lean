import ExponaxModel.Model.Ops
import ExponaxModel.Model.CF
import ExponaxModel.Model.BVec
import ExponaxModel.Model.Layout
import ExponaxModel.Model.Loops
import ExponaxModel.Model.Transform
import ExponaxModel.Generated.Etdrk
import ExponaxModel.Generated.Convert
import ExponaxModel.Generated.Misc
/-
Line-protocol driver: one request per line, one reply per line.
Tokens: decimal integers; IEEE doubles as `x` + 16 hex digits (bit pattern).
-/
open Exponax

def hexVal (c : Char) : Option Nat :=
  if '0' ≤ c ∧ c ≤ '9' then some (c.toNat - '0'.toNat)
  else if 'a' ≤ c ∧ c ≤ 'f' then some (c.toNat - 'a'.toNat + 10)
  else none

def parseFloatTok (t : String) : Option Float :=
  if t.length = 17 ∧ t.front = 'x' then
    let r := (t.drop 1).foldl (fun acc c => match acc, hexVal c with
      | some a, some v => some (a * 16 + v)
      | _, _ => none) (some 0)
    r.map (fun n => Float.ofBits n.toUInt64)
  else none

def hexDigit (n : Nat) : Char := if n < 10 then Char.ofNat (48 + n) else Char.ofNat (87 + n)

def floatTok (x : Float) : String :=
  let b := x.toBits.toNat
  "x" ++ String.ofList ((List.range 16).map (fun i => hexDigit ((b / 16 ^ (15 - i)) % 16)))

structure Args where
  toks : Array String
  pos : Nat := 0

abbrev P := StateT Args (Except String)

def nextTok : P String := do
  let a ← get
  if h : a.pos < a.toks.size then
    set { a with pos := a.pos + 1 }
    return a.toks[a.pos]
  else throw "missing argument"

def pInt : P Int := do
  let t ← nextTok
  match t.toInt? with
  | some i => return i
  | none => throw s!"bad int {t}"

def pNat : P Nat := do return (← pInt).toNat

def pFloat : P Float := do
  let t ← nextTok
  match parseFloatTok t with
  | some f => return f
  | none => throw s!"bad float {t}"

def pCF : P CF := do
  let re ← pFloat
  let im ← pFloat
  return ⟨re, im⟩

def pRe : P CF := do return ⟨← pFloat, 0.0⟩

def pMany {α} (n : Nat) (p : P α) : P (Array α) := do
  let mut out := Array.mkEmpty n
  for _ in [0:n] do
    out := out.push (← p)
  return out

def outInts (l : List Int) : String := " ".intercalate (l.map toString)
def outCF (l : List CF) : String := " ".intercalate (l.map (fun z => floatTok z.re ++ " " ++ floatTok z.im))
def outRe (l : List CF) : String := " ".intercalate (l.map (fun z => floatTok z.re))
def b2i (b : Bool) : Int := if b then 1 else 0

def fnOfArray (a : Array CF) : Nat → CF := fun i => a.getD i 0

open Layout Transform in
def dispatch (op : String) : P String := do
  match op with
  | "ping" => return "pong"
  | "fftfreq" =>
    let N ← pNat
    return outInts ((List.range N).map (fftfreq N))
  | "wn" =>
    let D ← pNat; let N ← pNat
    -- channel-major: for d, for each stored mode
    return outInts ((List.range D).flatMap (fun d => (List.range (numModes D N)).map (fun i => (wnFlat D N i).getD d 0)))
  | "wnshape" =>
    let D ← pNat; let N ← pNat
    return outInts ((wavenumberShape D N).map (fun (x : Nat) => Int.ofNat x))
  | "scaling" =>
    let D ← pNat; let N ← pNat; let mode ← pNat
    return outRe ((List.range (numModes D N)).map (fun i => (scaling D N mode (unflatten (wavenumberShape D N) i) : CF)))
  | "lowpass" =>
    let D ← pNat; let N ← pNat; let p ← pInt; let q ← pInt; let sep ← pNat
    return outInts ((List.range (numModes D N)).map (fun i =>
      let k := wnFlat D N i
      b2i (if sep = 1 then lowPassSep k p q else lowPassSphere k p)))
  | "oddball" =>
    let D ← pNat; let N ← pNat
    return outInts ((List.range (numModes D N)).map (fun i => b2i (oddball N (wnFlat D N i))))
  | "dealias" =>
    let D ← pNat; let N ← pNat; let fp ← pNat; let fq ← pNat
    return outInts ((List.range (numModes D N)).map (fun i => b2i (dealiasMask N fp fq (wnFlat D N i))))
  | "blocks" =>
    let D ← pNat; let N ← pNat
    return outInts ((modeBlocks D N).flatMap (fun b => b.flatMap (fun r => [(r.1 : Int), (r.2 : Int)])))
  | "bins" =>
    let D ← pNat; let N ← pNat
    return outInts ((List.range (numModes D N)).map (fun i =>
      match binOf (wnFlat D N i) (N / 2) with
      | some b => (b : Int)
      | none => -1))
  | "accepts" =>
    let C ← pNat; let D ← pNat; let N ← pNat; let r ← pNat
    let shape ← pMany r pNat
    return outInts [b2i (acceptsShape C D N shape.toList)]
  | "rfftn" =>
    let D ← pNat; let N ← pNat
    let u ← pMany (N ^ D) pRe
    let uh := rfftnM D N (fnOfArray u)
    return outCF ((List.range (numModes D N)).map uh)
  | "irfftn" =>
    let D ← pNat; let N ← pNat
    let c ← pMany (numModes D N) pCF
    let u := irfftnM D N (fnOfArray c)
    return outRe ((List.range (N ^ D)).map u)
  | "etd_coefs" =>
    -- order M r dt z  ->  exp_term [half_exp_term] coef_1 ...
    let order ← pNat; let M ← pNat; let r ← pRe; let dt ← pRe; let lam ← pCF
    let e : CF := Gen.Etdrk.exp_term dt lam
    match order with
    | 0 => return outCF [e]
    | 1 => return outCF [e, Gen.Etdrk.E1_coef_1 dt lam M r]
    | 2 => return outCF [e, Gen.Etdrk.E2_coef_1 dt lam M r, Gen.Etdrk.E2_coef_2 dt lam M r]
    | 3 => return outCF [e, Gen.Etdrk.E3_half_exp_term dt lam M r, Gen.Etdrk.E3_coef_1 dt lam M r,
        Gen.Etdrk.E3_coef_2 dt lam M r, Gen.Etdrk.E3_coef_3 dt lam M r, Gen.Etdrk.E3_coef_4 dt lam M r,
        Gen.Etdrk.E3_coef_5 dt lam M r]
    | 4 => return outCF [e, Gen.Etdrk.E4_half_exp_term dt lam M r, Gen.Etdrk.E4_coef_1 dt lam M r,
        Gen.Etdrk.E4_coef_2 dt lam M r, Gen.Etdrk.E4_coef_3 dt lam M r, Gen.Etdrk.E4_coef_4 dt lam M r,
        Gen.Etdrk.E4_coef_5 dt lam M r, Gen.Etdrk.E4_coef_6 dt lam M r]
    | _ => throw "order"
  | "etd_step" =>
    -- order n  E[n] (Eh[n] if order>=3) coef_1[n] .. coef_k[n]  a b c  u[n]   with N(v) = a*v*v + b*v + c
    let order ← pNat; let n ← pNat
    let rd : P BVec := do return BVec.v (← pMany n pCF)
    let E ← rd
    let Eh ← (if order ≥ 3 then rd else pure (BVec.s 0))
    let ncoef := match order with | 0 => 0 | 1 => 1 | 2 => 2 | 3 => 5 | _ => 6
    let coefs ← pMany ncoef rd
    let a ← pCF; let b ← pCF; let c ← pCF
    let u ← rd
    let N : BVec → BVec := fun v => BVec.s a * v * v + BVec.s b * v + BVec.s c
    let cf (i : Nat) : BVec := coefs.getD i (BVec.s 0)
    let out : BVec := match order with
      | 0 => Gen.Etdrk.E0step E u
      | 1 => Gen.Etdrk.E1step E (cf 0) N u
      | 2 => Gen.Etdrk.E2step E (cf 0) (cf 1) N u
      | 3 => Gen.Etdrk.E3step E Eh (cf 0) (cf 1) (cf 2) (cf 3) (cf 4) N u
      | _ => Gen.Etdrk.E4step E Eh (cf 0) (cf 1) (cf 2) (cf 3) (cf 4) (cf 5) N u
    return outCF (out.toArray n).toList
  | _ => throw s!"unknown op {op}"

partial def loop (h : IO.FS.Stream) (out : IO.FS.Stream) : IO Unit := do
  let line ← h.getLine
  if line.isEmpty then return ()
  let toks := (line.trimAscii.toString.splitOn " ").filter (· ≠ "") |>.toArray
  if toks.size = 0 then
    out.putStrLn "ERR empty"
  else
    match (dispatch toks[0]!).run { toks := toks, pos := 1 } with
    | .ok (s, _) => out.putStrLn s
    | .error e => out.putStrLn s!"ERR {e}"
  out.flush
  loop h out

def main : IO Unit := do
  loop (← IO.getStdin) (← IO.getStdout)
