import ExponaxModel.Model.Ops
import ExponaxModel.Model.CF
import ExponaxModel.Model.BVec
import ExponaxModel.Model.Layout
import ExponaxModel.Model.Loops
import ExponaxModel.Model.Transform
import ExponaxModel.Model.Nonlin
import ExponaxModel.Model.EtdrkSpec
import ExponaxModel.Model.Wave
import ExponaxModel.Model.Guards
import ExponaxModel.Model.Spectrum
import ExponaxModel.Model.Metrics
import ExponaxModel.Model.Interp
import ExponaxModel.Model.IC
import ExponaxModel.Generated.Etdrk
import ExponaxModel.Generated.Convert
import ExponaxModel.Generated.Misc
import ExponaxModel.Generated.Steppers
/-
Line-protocol driver: one request per line, one reply per line.
Tokens: decimal integers; IEEE doubles as `x` + 16 hex digits (bit pattern).
-/
open Exponax

def hexVal (c : Char) : Option Nat :=
  if '0' ≤ c ∧ c ≤ '9' then some (c.toNat - '0'.toNat)
  else if 'a' ≤ c ∧ c ≤ 'f' then some (c.toNat - 'a'.toNat + 10)
  else none

def parseFloatTok (t : String) : Option Float :=
  if t.length = 17 ∧ t.front = 'x' then
    let r := (t.drop 1).foldl (fun acc c => match acc, hexVal c with
      | some a, some v => some (a * 16 + v)
      | _, _ => none) (some 0)
    r.map (fun n => Float.ofBits n.toUInt64)
  else none

def hexDigit (n : Nat) : Char := if n < 10 then Char.ofNat (48 + n) else Char.ofNat (87 + n)

def floatTok (x : Float) : String :=
  let b := x.toBits.toNat
  "x" ++ String.ofList ((List.range 16).map (fun i => hexDigit ((b / 16 ^ (15 - i)) % 16)))

structure Args where
  toks : Array String
  pos : Nat := 0

abbrev P := StateT Args (Except String)

def nextTok : P String := do
  let a ← get
  if h : a.pos < a.toks.size then
    set { a with pos := a.pos + 1 }
    return a.toks[a.pos]
  else throw "missing argument"

def pInt : P Int := do
  let t ← nextTok
  match t.toInt? with
  | some i => return i
  | none => throw s!"bad int {t}"

def pNat : P Nat := do return (← pInt).toNat

def pFloat : P Float := do
  let t ← nextTok
  match parseFloatTok t with
  | some f => return f
  | none => throw s!"bad float {t}"

def pCF : P CF := do
  let re ← pFloat
  let im ← pFloat
  return ⟨re, im⟩

def pRe : P CF := do return ⟨← pFloat, 0.0⟩

def pMany {α} (n : Nat) (p : P α) : P (Array α) := do
  let mut out := Array.mkEmpty n
  for _ in [0:n] do
    out := out.push (← p)
  return out

def outInts (l : List Int) : String := " ".intercalate (l.map toString)
def outCF (l : List CF) : String := " ".intercalate (l.map (fun z => floatTok z.re ++ " " ++ floatTok z.im))
def outRe (l : List CF) : String := " ".intercalate (l.map (fun z => floatTok z.re))
def b2i (b : Bool) : Int := if b then 1 else 0


open Nonlin in
/-- parse a nonlinear-function spec; returns (channels, the model term) -/
def pNonlin (c : Cfg CF) (C : Nat) : P (MC CF → MC CF) := do
  let kind ← nextTok
  match kind with
  | "zero" => return fun _ => tab2 C (modes c) (fun _ _ => 0)
  | "conv" =>
    let scale ← pRe; let single ← pNat; let cons ← pNat
    return convection c C scale (single = 1) (cons = 1)
  | "gradnorm" =>
    let scale ← pRe; let zf ← pNat
    return gradientNorm c C scale (zf = 1)
  | "poly" =>
    let n ← pNat; let co ← pMany n pRe
    return polynomial c C co.toList
  | "general" =>
    let s0 ← pRe; let s1 ← pRe; let s2 ← pRe; let zf ← pNat
    return general c C s0 s1 s2 (zf = 1)
  | "vort" =>
    let scale ← pRe; let hasInj ← pNat
    if hasInj = 1 then
      let m ← pNat; let g ← pRe
      return vorticity2d c scale (some (m, g))
    else return vorticity2d c scale none
  | "proj3d" =>
    let hasInj ← pNat
    if hasInj = 1 then
      let m ← pNat; let g ← pRe
      return projected3d c (some (m, g))
    else return projected3d c none
  | "leray" => return leray c
  | "grayscott" =>
    let f ← pRe; let k ← pRe
    return reaction c C (grayScottReact f k)
  | "bz" => return reaction c C bzReact
  | "cahn" =>
    let sc ← pRe
    return cahnHilliard c sc
  | _ => throw s!"unknown nonlinear kind {kind}"

def pCfg : P (Nonlin.Cfg CF) := do
  let D ← pNat; let N ← pNat; let s ← pRe; let fp ← pNat; let fq ← pNat
  return { D := D, N := N, s := s, fp := fp, fq := fq }

def specOfArray (C M : Nat) (a : Array CF) : Nonlin.MC CF :=
  Transform.tab C (fun ch => Transform.tab M (fun h => a.getD (ch * M + h) 0))
def arrayOfSpec (C M : Nat) (f : Nonlin.MC CF) : Array CF :=
  (Array.range C).flatMap (fun ch => Transform.tab M (fun h => Nonlin.at2 f ch h))

/-- polynomial symbol terms: n, then per term: coefficient (complex) and D exponents -/
def pTerms (D : Nat) : P (List (CF × List Nat)) := do
  let n ← pNat
  let mut out := []
  for _ in [0:n] do
    let co ← pCF
    let al ← pMany D pNat
    out := out ++ [(co, al.toList)]
  return out


open Layout Transform in
def dispatch (op : String) : P String := do
  match op with
  | "ping" => return "pong"
  | "fftfreq" =>
    let N ← pNat
    return outInts ((List.range N).map (fftfreq N))
  | "wn" =>
    let D ← pNat; let N ← pNat
    -- channel-major: for d, for each stored mode
    return outInts ((List.range D).flatMap (fun d => (List.range (numModes D N)).map (fun i => (wnFlat D N i).getD d 0)))
  | "wnshape" =>
    let D ← pNat; let N ← pNat
    return outInts ((wavenumberShape D N).map (fun (x : Nat) => Int.ofNat x))
  | "scaling" =>
    let D ← pNat; let N ← pNat; let mode ← pNat
    return outRe ((List.range (numModes D N)).map (fun i => (scaling D N mode (unflatten (wavenumberShape D N) i) : CF)))
  | "lowpass" =>
    let D ← pNat; let N ← pNat; let p ← pInt; let q ← pInt; let sep ← pNat
    return outInts ((List.range (numModes D N)).map (fun i =>
      let k := wnFlat D N i
      b2i (if sep = 1 then lowPassSep k p q else lowPassSphere k p)))
  | "oddball" =>
    let D ← pNat; let N ← pNat
    return outInts ((List.range (numModes D N)).map (fun i => b2i (oddball N (wnFlat D N i))))
  | "dealias" =>
    let D ← pNat; let N ← pNat; let fp ← pNat; let fq ← pNat
    return outInts ((List.range (numModes D N)).map (fun i => b2i (dealiasMask N fp fq (wnFlat D N i))))
  | "blocks" =>
    let D ← pNat; let N ← pNat
    return outInts ((modeBlocks D N).flatMap (fun b => b.flatMap (fun r => [(r.1 : Int), (r.2 : Int)])))
  | "bins" =>
    let D ← pNat; let N ← pNat
    return outInts ((List.range (numModes D N)).map (fun i =>
      match binOf (wnFlat D N i) (N / 2) with
      | some b => (b : Int)
      | none => -1))
  | "accepts" =>
    let C ← pNat; let D ← pNat; let N ← pNat; let r ← pNat
    let shape ← pMany r pNat
    return outInts [b2i (acceptsShape C D N shape.toList)]
  | "rfftn" =>
    let D ← pNat; let N ← pNat
    let u ← pMany (N ^ D) pRe
    let uh := rfftnM D N u
    return outCF uh.toList
  | "irfftn" =>
    let D ← pNat; let N ← pNat
    let c ← pMany (numModes D N) pCF
    let u := irfftnM D N c
    return outRe u.toList
  | "etd_coefs" =>
    -- order M r dt z  ->  exp_term [half_exp_term] coef_1 ...
    let order ← pNat; let M ← pNat; let r ← pRe; let dt ← pRe; let lam ← pCF
    let e : CF := Gen.Etdrk.exp_term dt lam
    match order with
    | 0 => return outCF [e]
    | 1 => return outCF [e, Gen.Etdrk.E1_coef_1 dt lam M r]
    | 2 => return outCF [e, Gen.Etdrk.E2_coef_1 dt lam M r, Gen.Etdrk.E2_coef_2 dt lam M r]
    | 3 => return outCF [e, Gen.Etdrk.E3_half_exp_term dt lam M r, Gen.Etdrk.E3_coef_1 dt lam M r,
        Gen.Etdrk.E3_coef_2 dt lam M r, Gen.Etdrk.E3_coef_3 dt lam M r, Gen.Etdrk.E3_coef_4 dt lam M r,
        Gen.Etdrk.E3_coef_5 dt lam M r]
    | 4 => return outCF [e, Gen.Etdrk.E4_half_exp_term dt lam M r, Gen.Etdrk.E4_coef_1 dt lam M r,
        Gen.Etdrk.E4_coef_2 dt lam M r, Gen.Etdrk.E4_coef_3 dt lam M r, Gen.Etdrk.E4_coef_4 dt lam M r,
        Gen.Etdrk.E4_coef_5 dt lam M r, Gen.Etdrk.E4_coef_6 dt lam M r]
    | _ => throw "order"
  | "etd_step" =>
    -- order n  E[n] (Eh[n] if order>=3) coef_1[n] .. coef_k[n]  a b c  u[n]   with N(v) = a*v*v + b*v + c
    let order ← pNat; let n ← pNat
    let rd : P BVec := do return BVec.v (← pMany n pCF)
    let E ← rd
    let Eh ← (if order ≥ 3 then rd else pure (BVec.s 0))
    let ncoef := match order with | 0 => 0 | 1 => 1 | 2 => 2 | 3 => 5 | _ => 6
    let coefs ← pMany ncoef rd
    let a ← pCF; let b ← pCF; let c ← pCF
    let u ← rd
    let N : BVec → BVec := fun v => BVec.s a * v * v + BVec.s b * v + BVec.s c
    let cf (i : Nat) : BVec := coefs.getD i (BVec.s 0)
    let out : BVec := match order with
      | 0 => Gen.Etdrk.E0step E u
      | 1 => Gen.Etdrk.E1step E (cf 0) N u
      | 2 => Gen.Etdrk.E2step E (cf 0) (cf 1) N u
      | 3 => Gen.Etdrk.E3step E Eh (cf 0) (cf 1) (cf 2) (cf 3) (cf 4) N u
      | _ => Gen.Etdrk.E4step E Eh (cf 0) (cf 1) (cf 2) (cf 3) (cf 4) (cf 5) N u
    return outCF (out.toArray n).toList
  | "gensym" =>
    -- name D N s nargs (tag …)*  -> regenerated `_build_linear_operator` of the class at every stored mode
    --   tags: s re im | p (M × re im: one value per stored mode) | v n (re im)^n | m r c (re im)^(r·c) | b 0/1 | n k
    let name ← nextTok
    let D ← pNat; let N ← pNat; let sc ← pRe
    let c : Nonlin.Cfg CF := { D := D, N := N, s := sc, fp := 0, fq := 0 }
    let M := numModes D N
    let nargs ← pNat
    let mut args : Array (Nat → Gen.Steppers.Arg CF) := #[]
    for _ in [0:nargs] do
      let tag ← nextTok
      match tag with
      | "s" => let x ← pCF; args := args.push (fun _ => .s x)
      | "p" => let xs ← pMany M pCF; args := args.push (fun h => .s (xs.getD h ⟨0.0, 0.0⟩))
      | "v" => let n ← pNat; let xs ← pMany n pCF; args := args.push (fun _ => .v xs.toList)
      | "m" =>
        let r ← pNat; let cc ← pNat
        let xs ← pMany (r * cc) pCF
        let rows := (List.range r).map (fun i => (List.range cc).map (fun j => xs.getD (i * cc + j) ⟨0.0, 0.0⟩))
        args := args.push (fun _ => .m rows)
      | "b" => let k ← pNat; args := args.push (fun _ => .b (k != 0))
      | "n" => let k ← pNat; args := args.push (fun _ => .n k)
      | t => throw s!"bad gensym tag {t}"
    let mut out : Array CF := #[]
    for h in [0:M] do
      let κ := (List.range D).map (fun d => Nonlin.deriv c d h)
      match Gen.Steppers.eval_linear_operator name κ (args.toList.map (fun f => f h)) with
      | some vals => out := out ++ vals.toArray
      | none => throw s!"gensym: no regenerated operator for {name} with these arguments"
    return outCF out.toList
  | "sym_poly" =>
    -- D N s nterms (c α..)*  -> symbol at every stored mode
    let D ← pNat; let N ← pNat; let sc ← pRe
    let terms ← pTerms D
    let c : Nonlin.Cfg CF := { D := D, N := N, s := sc, fp := 0, fq := 0 }
    return outCF ((List.range (numModes D N)).map (Nonlin.polySymbol c terms))
  | "nonlin" =>
    -- D N s fp fq C <spec> uhat[C*M]
    let c ← pCfg; let C ← pNat
    let f ← pNonlin c C
    let M := numModes c.D c.N
    let uh ← pMany (C * M) pCF
    let out := f (specOfArray C M uh)
    return outCF (arrayOfSpec C M out).toList
  | "fullstep" =>
    -- order Mc r dt | D N s fp fq C | CL (terms)*CL | <nonlin spec> | u[C*G] reals   -> u_next[C*G]
    let order ← pNat; let Mc ← pNat; let r ← pRe; let dt ← pRe
    let c ← pCfg; let C ← pNat
    let CL ← pNat
    let mut syms : Array (List (CF × List Nat)) := #[]
    for _ in [0:CL] do
      syms := syms.push (← pTerms c.D)
    let f ← pNonlin c C
    let M := numModes c.D c.N
    let G := c.N ^ c.D
    let u ← pMany (C * G) pRe
    let lam (ch h : Nat) : CF := Nonlin.polySymbol c (syms.getD (if CL = 1 then 0 else ch) []) h
    let vec (g : Nat → Nat → CF) : BVec :=
      BVec.v ((Array.range C).flatMap (fun ch => Transform.tab M (g ch)))
    let uh : BVec := BVec.v ((Array.range C).flatMap (fun ch =>
      rfftnM c.D c.N (Transform.tab G (fun j => u.getD (ch * G + j) 0))))
    let Nl : BVec → BVec := fun v => BVec.v (arrayOfSpec C M (f (specOfArray C M (v.toArray (C * M)))))
    let E := vec (fun ch h => Gen.Etdrk.exp_term dt (lam ch h))
    let out : BVec := match order with
      | 0 => Gen.Etdrk.E0step E uh
      | 1 => Gen.Etdrk.E1step E (vec (fun ch h => Gen.Etdrk.E1_coef_1 dt (lam ch h) Mc r)) Nl uh
      | 2 => Gen.Etdrk.E2step E (vec (fun ch h => Gen.Etdrk.E2_coef_1 dt (lam ch h) Mc r))
               (vec (fun ch h => Gen.Etdrk.E2_coef_2 dt (lam ch h) Mc r)) Nl uh
      | 3 => Gen.Etdrk.E3step E (vec (fun ch h => Gen.Etdrk.E3_half_exp_term dt (lam ch h) Mc r))
               (vec (fun ch h => Gen.Etdrk.E3_coef_1 dt (lam ch h) Mc r))
               (vec (fun ch h => Gen.Etdrk.E3_coef_2 dt (lam ch h) Mc r))
               (vec (fun ch h => Gen.Etdrk.E3_coef_3 dt (lam ch h) Mc r))
               (vec (fun ch h => Gen.Etdrk.E3_coef_4 dt (lam ch h) Mc r))
               (vec (fun ch h => Gen.Etdrk.E3_coef_5 dt (lam ch h) Mc r)) Nl uh
      | _ => Gen.Etdrk.E4step E (vec (fun ch h => Gen.Etdrk.E4_half_exp_term dt (lam ch h) Mc r))
               (vec (fun ch h => Gen.Etdrk.E4_coef_1 dt (lam ch h) Mc r))
               (vec (fun ch h => Gen.Etdrk.E4_coef_2 dt (lam ch h) Mc r))
               (vec (fun ch h => Gen.Etdrk.E4_coef_3 dt (lam ch h) Mc r))
               (vec (fun ch h => Gen.Etdrk.E4_coef_4 dt (lam ch h) Mc r))
               (vec (fun ch h => Gen.Etdrk.E4_coef_5 dt (lam ch h) Mc r))
               (vec (fun ch h => Gen.Etdrk.E4_coef_6 dt (lam ch h) Mc r)) Nl uh
    let oa := out.toArray (C * M)
    let res := (List.range C).flatMap (fun ch =>
      (irfftnM c.D c.N (Transform.tab M (fun h => oa.getD (ch * M + h) 0))).toList)
    return outRe res
  | "convert" =>
    let fname ← nextTok
    let pList : P (List CF) := do
      let n ← pNat
      return (← pMany n pRe).toList
    match fname with
    | "normalize_coefficients" =>
      let cs ← pList; let L ← pRe; let dt ← pRe
      return outRe (Gen.Convert.normalize_coefficients cs L dt)
    | "denormalize_coefficients" =>
      let cs ← pList; let L ← pRe; let dt ← pRe
      return outRe (Gen.Convert.denormalize_coefficients cs L dt)
    | "normalize_convection_scale" =>
      let b ← pRe; let L ← pRe; let dt ← pRe
      return outRe [Gen.Convert.normalize_convection_scale b L dt]
    | "denormalize_convection_scale" =>
      let b ← pRe; let L ← pRe; let dt ← pRe
      return outRe [Gen.Convert.denormalize_convection_scale b L dt]
    | "normalize_gradient_norm_scale" =>
      let b ← pRe; let L ← pRe; let dt ← pRe
      return outRe [Gen.Convert.normalize_gradient_norm_scale b L dt]
    | "denormalize_gradient_norm_scale" =>
      let b ← pRe; let L ← pRe; let dt ← pRe
      return outRe [Gen.Convert.denormalize_gradient_norm_scale b L dt]
    | "normalize_polynomial_scales" =>
      let cs ← pList; let L ← pRe; let dt ← pRe
      return outRe (Gen.Convert.normalize_polynomial_scales cs L dt)
    | "denormalize_polynomial_scales" =>
      let cs ← pList; let L ← pRe; let dt ← pRe
      return outRe (Gen.Convert.denormalize_polynomial_scales cs L dt)
    | "reduce_normalized_coefficients_to_difficulty" =>
      let cs ← pList; let D ← pNat; let N ← pNat
      return outRe (Gen.Convert.reduce_normalized_coefficients_to_difficulty cs D N)
    | "extract_normalized_coefficients_from_difficulty" =>
      let cs ← pList; let D ← pNat; let N ← pNat
      return outRe (Gen.Convert.extract_normalized_coefficients_from_difficulty cs D N)
    | "reduce_normalized_convection_scale_to_difficulty" =>
      let b ← pRe; let D ← pNat; let N ← pNat; let M ← pRe
      return outRe [Gen.Convert.reduce_normalized_convection_scale_to_difficulty b D N M]
    | "extract_normalized_convection_scale_from_difficulty" =>
      let b ← pRe; let D ← pNat; let N ← pNat; let M ← pRe
      return outRe [Gen.Convert.extract_normalized_convection_scale_from_difficulty b D N M]
    | "reduce_normalized_gradient_norm_scale_to_difficulty" =>
      let b ← pRe; let D ← pNat; let N ← pNat; let M ← pRe
      return outRe [Gen.Convert.reduce_normalized_gradient_norm_scale_to_difficulty b D N M]
    | "extract_normalized_gradient_norm_scale_from_difficulty" =>
      let b ← pRe; let D ← pNat; let N ← pNat; let M ← pRe
      return outRe [Gen.Convert.extract_normalized_gradient_norm_scale_from_difficulty b D N M]
    | "reduce_normalized_nonlinear_scales_to_difficulty" =>
      let a ← pRe; let b ← pRe; let c ← pRe; let D ← pNat; let N ← pNat; let M ← pRe
      let r := Gen.Convert.reduce_normalized_nonlinear_scales_to_difficulty (a, b, c) D N M
      return outRe [r.1, r.2.1, r.2.2]
    | "extract_normalized_nonlinear_scales_from_difficulty" =>
      let a ← pRe; let b ← pRe; let c ← pRe; let D ← pNat; let N ← pNat; let M ← pRe
      let r := Gen.Convert.extract_normalized_nonlinear_scales_from_difficulty (a, b, c) D N M
      return outRe [r.1, r.2.1, r.2.2]
    | _ => throw s!"unknown conversion {fname}"
  | "loops" =>
    -- integer bookkeeping stepper f(u) = a*u + b (+ aux)
    let kind ← nextTok
    match kind with
    | "rollout" =>
      let n ← pNat; let incl ← pNat; let a ← pInt; let b ← pInt; let u0 ← pInt
      return outInts (Loops.rollout (fun u => a * u + b) n (incl = 1) u0)
    | "rollout_aux" =>
      let n ← pNat; let incl ← pNat; let cst ← pNat; let a ← pInt; let b ← pInt; let u0 ← pInt
      let na ← pNat; let aux ← pMany na pInt
      return outInts (Loops.rolloutAux (fun u x => a * u + b + x) n (incl = 1) (cst = 1) u0 aux.toList)
    | "repeat" =>
      let n ← pNat; let a ← pInt; let b ← pInt; let u0 ← pInt
      return outInts [Loops.repeatN (fun u => a * u + b) n u0]
    | "repeat_aux" =>
      let n ← pNat; let cst ← pNat; let a ← pInt; let b ← pInt; let u0 ← pInt
      let na ← pNat; let aux ← pMany na pInt
      return outInts [Loops.repeatAux (fun u x => a * u + b + x) n (cst = 1) u0 aux.toList]
    | "stack" =>
      let T ← pNat; let sub ← pNat
      match Loops.stackSub ((List.range T).map (fun (i : Nat) => Int.ofNat i)) sub with
      | none => return "-1"
      | some w => return outInts (w.flatMap id)
    | "repeated" =>
      let n ← pNat; let a ← pInt; let b ← pInt; let u0 ← pInt
      return outInts [Loops.repeatedStepFourier (fun u => a * u + b) n u0]
    | _ => throw "loops kind"
  | "wave_step" =>
    -- c dt n  (kn isDC h v)*n
    let c ← pRe; let dt ← pRe; let n ← pNat
    let mut out : List CF := []
    for _ in [0:n] do
      let kn ← pRe; let dc ← pNat; let h ← pCF; let v ← pCF
      let r := Wave.stepMode c dt kn (dc = 1) h v
      out := out ++ [r.1, r.2]
    return outCF out
  | "guard" =>
    let kind ← nextTok
    match kind with
    | "poisson" =>
      let D ← pNat; let N ← pNat; let r ← pNat
      let shape ← pMany r pNat
      return outInts [b2i (Guards.acceptsPoisson D N shape.toList)]
    | "dim" =>
      let only ← pInt; let D ← pNat
      return outInts [b2i (Guards.dimOk (if only < 0 then none else some only.toNat) D)]
    | "lap" => let o ← pNat; return outInts [b2i (Guards.laplaceOrderOk o)]
    | "grad" => let o ← pNat; return outInts [b2i (Guards.gradInnerOrderOk o)]
    | "ic" =>
      let z ← pNat; let sd ← pNat; let m ← pNat
      return outInts [b2i (Guards.icNormOk (z = 1) (sd = 1) (m = 1))]
    | "metric" =>
      let mode ← pNat; let hr ← pNat
      return outInts [b2i (Guards.metricModeOk mode (hr = 1))]
    | "conv" =>
      let single ← pNat; let C ← pNat; let D ← pNat
      return outInts [b2i (Guards.convChannelsOk (single = 1) C D)]
    | "fixed" =>
      let need ← pNat; let C ← pNat
      return outInts [b2i (Guards.fixedChannelsOk need C)]
    | _ => throw "guard kind"
  | "grid" =>
    let L ← pRe; let N ← pNat; let zc ← pNat; let full ← pNat
    return outRe ((List.range (gridLen N (full = 1))).map (fun j => (gridCoord L N (zc = 1) j : CF)))
  | "wrap" =>
    let D ← pNat; let N ← pNat
    return outInts ((List.range ((N + 1) ^ D)).map (fun i => Int.ofNat (wrapSource D N i)))
  | "spectrum" =>
    let D ← pNat; let N ← pNat; let power ← pNat; let avg ← pNat
    let u ← pMany (N ^ D) pRe
    return outRe (Spectrum.spectrum D N (power = 1) (avg = 1) u).toList
  | "mapres" =>
    let D ← pNat; let No ← pNat; let Nn ← pNat; let odd ← pNat
    let u ← pMany (No ^ D) pRe
    return outRe (Interp.mapBetween D No Nn (odd = 1) u).toList
  | "mapsrc" =>
    -- source flat index (or -1) of every target stored mode
    let D ← pNat; let No ← pNat; let Nn ← pNat
    return outInts ((List.range (numModes D Nn)).map (fun h' =>
      match Interp.srcIndex D No Nn (unflatten (wavenumberShape D Nn) h') with
      | some idx => Int.ofNat (flatten (wavenumberShape D No) idx)
      | none => -1))
  | "interp" =>
    let D ← pNat; let N ← pNat; let sc ← pRe
    let u ← pMany (N ^ D) pRe
    let x ← pMany D pRe
    return outRe [Interp.interpolate D N sc u x.toList]
  | "metric_spatial" =>
    let D ← pNat; let N ← pNat; let L ← pRe; let p' ← pRe; let q ← pRe
    let u ← pMany (N ^ D) pRe
    return outRe [Metrics.spatialAggregator D N L p' q u]
  | "metric_fourier" =>
    -- D N L s p q hasband lo hi hasderiv m floor  u[N^D]
    let D ← pNat; let N ← pNat; let L ← pRe; let sc ← pRe; let p' ← pRe; let q ← pRe
    let hb ← pNat; let lo ← pNat; let hi ← pNat; let hd ← pNat; let m ← pRe; let fl ← pRe
    let u ← pMany (N ^ D) pRe
    let uh := rfftnM D N u
    let mag : Array CF := uh.map (fun z => (⟨CF.cabs z, 0.0⟩ : CF))
    return outRe [Metrics.fourierAggregator D N L sc p' q (if hb = 1 then some (lo, hi) else none)
      (if hd = 1 then some m else none) fl mag]
  | "correlation" =>
    let D ← pNat; let N ← pNat
    let u ← pMany (N ^ D) pRe
    let v ← pMany (N ^ D) pRe
    return outRe [Metrics.correlationChannel D N (1 : CF) u v]
  | "normalize" =>
    let z ← pNat; let sd ← pNat; let mx ← pNat; let n ← pNat
    let u ← pMany n pRe
    return outRe (IC.normalizeIc (z = 1) (sd = 1) (mx = 1) u).toList
  | "clamp" =>
    let lo ← pRe; let hi ← pRe; let n ← pNat
    let u ← pMany n pRe
    return outRe (IC.clamp lo hi u).toList
  | "trunc" =>
    let D ← pNat; let N ← pNat; let cutoff ← pNat; let off ← pRe
    let noise ← pMany (N ^ D) pRe
    return outRe (IC.truncatedSeries D N cutoff off noise).toList
  | "combine" =>
    let mode ← pNat; let n ← pNat
    let dn ← pMany n pRe; let rn ← pMany n pRe; let sn ← pMany n pRe
    return outRe [Metrics.combine mode dn.toList rn.toList sn.toList]
  | "forced" =>
    -- u + dt*f through the regenerated ForcedStepper.step with the identity as inner stepper
    let dt ← pRe; let n ← pNat
    let u ← pMany n pRe; let f ← pMany n pRe
    let r : BVec := Gen.Misc.forced_step (fun (x : BVec) => x) (BVec.s dt) (BVec.v u) (BVec.v f)
    return outRe (r.toArray n).toList
  | "cutoff" =>
    -- the regenerated cutoff arithmetic of BaseNonlinearFun.__init__, evaluated in binary64 like the implementation
    let N ← pNat; let frac ← pRe
    return outRe [(Gen.Misc.dealias_cutoff N frac : CF)]
  | "poisson" =>
    -- D N s order f[N^D]  -> solution
    let D ← pNat; let N ← pNat; let sc ← pRe; let order ← pNat
    let f ← pMany (N ^ D) pRe
    let c : Nonlin.Cfg CF := { D := D, N := N, s := sc, fp := 0, fq := 0 }
    let fh := rfftnM D N f
    let uh := Transform.tab (numModes D N) (fun h => Nonlin.poissonStep c order h (fh.getD h 0))
    return outRe (irfftnM D N uh).toList
  | "derivative" =>
    -- D N s order u[N^D]  -> D arrays (one per axis)
    let D ← pNat; let N ← pNat; let sc ← pRe; let order ← pNat
    let u ← pMany (N ^ D) pRe
    let c : Nonlin.Cfg CF := { D := D, N := N, s := sc, fp := 0, fq := 0 }
    return outRe ((List.range D).flatMap (fun d => (Nonlin.derivativeM c order d u).toList))
  | "laplace_sym" =>
    let D ← pNat; let N ← pNat; let sc ← pRe; let order ← pNat
    let c : Nonlin.Cfg CF := { D := D, N := N, s := sc, fp := 0, fq := 0 }
    return outCF ((List.range (numModes D N)).map (Nonlin.laplace c order))
  | _ => throw s!"unknown op {op}"

partial def loop (h : IO.FS.Stream) (out : IO.FS.Stream) : IO Unit := do
  let line ← h.getLine
  if line.isEmpty then return ()
  let toks := (line.trimAscii.toString.splitOn " ").filter (· ≠ "") |>.toArray
  if toks.size = 0 then
    out.putStrLn "ERR empty"
  else
    match (dispatch toks[0]!).run { toks := toks, pos := 1 } with
    | .ok (s, _) => out.putStrLn s
    | .error e => out.putStrLn s!"ERR {e}"
  out.flush
  loop h out

def main : IO Unit := do
  loop (← IO.getStdin) (← IO.getStdout)
